// C10 — centring/scaling does what each option promises and is reproducible on new data.
#include "common.hpp"
using namespace vf;
using namespace orc;

static const double MISS = 99999999.0;

// Column generator honouring the stated domain: spread (sample sd of the observed cells) >= 0.02 or exactly 0,
// every scale the option uses >= 0.02 or exactly 0 (for option 5: |mean| >= 0.02).
struct ColSpec { bool constant; };
static void gen_matrix(Draw &d, int n, int p, int opt, bool allow_missing, M &X, int &nmissing, int &nzero, bool &row0miss) {
  X = M(n, p); nmissing = 0; nzero = 0; row0miss = false;
  for (int j = 0; j < p; j++) {
    bool constant = d.coin(12);
    double offset = d.coin(30) ? 0.0 : (d.coin(50) ? 1 : -1) * gen_logu(d, -2, 6);
    double spread = gen_logu(d, -1.3, 3);
    auto z = d.ivec(n, -1000, 1000);
    std::vector<double> col(n);
    for (int i = 0; i < n; i++) col[i] = constant ? offset : offset + spread * (double)z[i] / 500.0;
    // missing cells: up to 20 %, every column keeps >= 2 observed cells
    std::vector<char> miss(n, 0);
    bool sparse = false;
    if (allow_missing && n >= 3) {
      int maxm = std::min(n - 2, std::max(1, n / 5));
      int km = (int)d.i(0, maxm);
      for (int t = 0; t < km; t++) { int i = (t == 0 && d.coin(40)) ? 0 : (int)d.i(0, n - 1); miss[i] = 1; }
    }
    // a column with one observed cell, or none (short matrices: still within 20 % of the cells when there are enough columns)
    if (allow_missing && n <= 6 && d.coin(10)) { sparse = true; int keep = d.coin(70) ? (int)d.i(0, n - 1) : -1; for (int i = 0; i < n; i++) miss[i] = (i != keep); }
    if (sparse) {   // one observed cell: "every scale the option uses >= 0.02 or exactly 0" - for RMS (2) and level (5) that scale is |value|
      nzero++;
      if ((opt == 2 || opt == 5)) for (int i = 0; i < n; i++) if (!miss[i] && std::fabs(col[i]) < 0.03 && col[i] != 0.0) col[i] = col[i] < 0 ? -1.25 : 1.25;
    }
    else if (!constant) {
      // enforce the domain on the observed cells
      ld s = 0; int cnt = 0; for (int i = 0; i < n; i++) if (!miss[i]) { s += col[i]; cnt++; }
      ld mu = s / cnt, ss = 0; for (int i = 0; i < n; i++) if (!miss[i]) ss += (col[i] - mu) * (col[i] - mu);
      ld sd = sqrtl(ss / (cnt - 1));
      if (sd < 0.03L) {
        if (sd == 0) { for (int i = 0, k = 0; i < n; i++) if (!miss[i]) { col[i] = offset + ((k++ % 2) ? 0.5 : -0.5); } }
        else { double f = (double)(0.05L / sd); for (int i = 0; i < n; i++) col[i] = (double)(mu + (col[i] - mu) * f); }
      }
      if (opt == 5) {   // level scaling divides by the mean: keep |mean| >= 0.02 ...
        s = 0; for (int i = 0; i < n; i++) if (!miss[i]) s += col[i];
        mu = s / cnt;
        if (d.coin(12)) {   // ... except for a share of columns on a tiny level (|mean| in [0.002, 0.009], spread unchanged): still a valid scaling factor
          double target = (d.coin(50) ? 1 : -1) * d.real(0.002, 0.009);
          for (int i = 0; i < n; i++) col[i] = (double)(col[i] - mu + target);
        } else if (fabsl(mu) < 0.03L) for (int i = 0; i < n; i++) col[i] += 1.0;
      }
    } else {
      nzero++;
      if (opt == 5 && std::fabs(offset) < 0.03 && offset != 0.0) for (int i = 0; i < n; i++) col[i] = 0.0;
    }
    for (int i = 0; i < n; i++) { if (miss[i]) { col[i] = MISS; nmissing++; if (i == 0) row0miss = true; } X(i, j) = col[i]; }
  }
}

// forward error bounds of the reference pipeline (see DESIGN.md, T1)
struct Bounds { V dmu, dsc; };
static Bounds bounds(const M &X, const Prep &P, int opt) {
  Bounds b; int n = X.r, p = X.c; b.dmu.assign(p, 0); b.dsc.assign(p, 0);
  for (int j = 0; j < p; j++) {
    ld sa = 0, amax = 0; int cnt = 0; for (int i = 0; i < n; i++) if (!is_missing(X(i, j))) { sa += fabsl(X(i, j)); amax = std::max(amax, fabsl(X(i, j))); cnt++; }
    ld dmu = 64 * (cnt + 1) * EPS * sa / std::max(cnt, 1);
    b.dmu[j] = dmu;
    ld dd = dmu + 4 * EPS * (amax + fabsl(P.mean[j]));
    ld ss = 0, sad = 0; for (int i = 0; i < n; i++) if (!is_missing(X(i, j))) { ld t = X(i, j) - P.mean[j]; ss += t * t; sad += fabsl(t); }
    ld sd = cnt > 1 ? sqrtl(ss / (cnt - 1)) : 0;
    ld dvar = cnt > 1 ? (2 * sad * dd + cnt * dd * dd + 64 * (cnt + 1) * EPS * ss) / (cnt - 1) : 0;
    ld dsd = sd > 0 ? dvar / (2 * sd) + 4 * EPS * sd : sqrtl(dvar);
    ld dsc = 0;
    switch (opt) {
      case 1: dsc = dsd; break;
      case 2: dsc = 64 * (cnt + 2) * EPS * P.scale[j]; break;
      case 3: dsc = sd > 0 ? dsd / (2 * sqrtl(sd)) + 4 * EPS * sqrtl(sd) : sqrtl(dsd); break;
      case 4: dsc = 4 * EPS * fabsl(P.scale[j]); break;
      case 5: dsc = dmu; break;
      default: dsc = 0;
    }
    b.dsc[j] = dsc;
  }
  return b;
}
static ld cell_tol(const M &X, const Prep &P, const Bounds &b, int i, int j) {
  ld sc = P.scale[j]; if (sc == 0) return 0;
  ld dd = b.dmu[j] + 4 * EPS * (fabsl(X(i, j)) + fabsl(P.mean[j]));
  ld t = fabsl(P.X(i, j));
  return dd / fabsl(sc) + t * b.dsc[j] / fabsl(sc) + 8 * EPS * t + 1e-300L;
}

static void check_fit(const M &X, int opt, matrix *lx, dvector *avg, dvector *scl, matrix *tr, const char *who) {
  int n = X.r, p = X.c;
  Prep P = ref_preprocess(X, opt);
  VF_CHECK((int)tr->row == n && (int)tr->col == p, "%s: transformed shape %s", who, dims(tr).c_str());
  if (opt < 0) {
    VF_CHECK(avg->size == 0 && scl->size == 0, "%s: option -1 stored %zu averages / %zu scalings", who, avg->size, scl->size);
    for (int i = 0; i < n; i++) for (int j = 0; j < p; j++)
      VF_CHECK(tr->data[i][j] == (double)X(i, j), "%s: option -1 is not a copy at (%d,%d): %.17g vs %.17g", who, i, j, tr->data[i][j], (double)X(i, j));
    return;
  }
  VF_CHECK((int)avg->size == p && (int)scl->size == p, "%s: stored %zu averages / %zu scalings for %d columns", who, avg->size, scl->size, p);
  Bounds b = bounds(X, P, opt);
  for (int j = 0; j < p; j++) {
    VF_CLOSE(avg->data[j], P.mean[j], b.dmu[j] + 1e-300L, fmt("%s: stored column average %d (option %d)", who, j, opt).c_str());
    VF_CLOSE(scl->data[j], P.scale[j], b.dsc[j] + 1e-300L, fmt("%s: stored column scaling %d (option %d)", who, j, opt).c_str());
  }
  for (int j = 0; j < p; j++) for (int i = 0; i < n; i++) {
    double g = tr->data[i][j];
    VF_CHECK(std::isfinite(g), "%s: non-finite transformed value at (%d,%d), option %d", who, i, j, opt);
    if (is_missing(X(i, j))) continue;          // value at a missing cell is unspecified
    if (P.scale[j] == 0) { VF_CHECK(g == 0.0, "%s: zero-spread column %d not exactly 0 (%.17g), option %d", who, j, g, opt); continue; }
    VF_CLOSE(g, P.X(i, j), cell_tol(X, P, b, i, j), fmt("%s: transformed (%d,%d) option %d", who, i, j, opt).c_str());
  }
  // promised statistics of the transformed observed cells
  for (int j = 0; j < p; j++) {
    if (P.scale[j] == 0) continue;
    ld s = 0, tmax = 0, tsum = 0; int cnt = 0;
    for (int i = 0; i < n; i++) if (!is_missing(X(i, j))) { s += tr->data[i][j]; cnt++; tmax = std::max(tmax, cell_tol(X, P, b, i, j)); tsum += fabsl(tr->data[i][j]); }
    if (cnt == 0) continue;   // a column without observed cells has no statistics
    ld mean = s / cnt;
    VF_CHECK(fabsl(mean) <= tmax + 64 * cnt * EPS * tsum / cnt, "%s: transformed column %d has mean %Lg (tol %Lg), option %d", who, j, mean, tmax, opt);
    if (opt == 1 && cnt >= 2) {
      ld ss = 0; for (int i = 0; i < n; i++) if (!is_missing(X(i, j))) ss += (tr->data[i][j] - mean) * (tr->data[i][j] - mean);
      ld sd = sqrtl(ss / (cnt - 1));
      VF_CHECK(fabsl(sd - 1) <= 8 * tmax + 1e-12L, "%s: autoscaled column %d has sd %.17Lg, option 1", who, j, sd);
    }
    if (opt == 4) {
      ld mn = 1e300L, mx = -1e300L; for (int i = 0; i < n; i++) if (!is_missing(X(i, j))) { mn = std::min<ld>(mn, tr->data[i][j]); mx = std::max<ld>(mx, tr->data[i][j]); }
      VF_CHECK(fabsl((mx - mn) - 1) <= 8 * tmax + 1e-12L, "%s: range-scaled column %d has range %.17Lg", who, j, mx - mn);
    }
  }
}

// ------------------------------------------------------------------------------------------------
static void gen_matrixcase(Draw &d, Case &c) {
  int n = (int)d.sz(2, 60), p = (int)d.sz(1, 20);
  int opt = (int)d.i(-1, 5);
  bool missing = d.coin(50);
  int nnew = (int)d.i(0, 4);
  M X; int nm, nz; bool r0;
  gen_matrix(d, n, p, opt, missing, X, nm, nz, r0);
  M N(nnew, p);
  for (int i = 0; i < nnew; i++) for (int j = 0; j < p; j++) {
    // new rows: around the training column (first observed value) plus noise
    ld base = 0; for (int k = 0; k < n; k++) if (!is_missing(X(k, j))) { base = X(k, j); break; }
    N(i, j) = (double)(base + d.dyadic(4000, 8));
  }
  c.p = {n, p, opt, nnew};
  put(c, X); put(c, N);
  c.nontrivial = opt >= 2 && (nm > 0 || nz > 0);
  c.tags.push_back(fmt("option=%d", opt));
  if (nm) c.tags.push_back("has-missing");
  if (r0) c.tags.push_back("missing-in-row0");
  if (nz) c.tags.push_back("zero-spread-column");
}

static void pred_matrixcase(const Case &c) {
  Reader rd(c);
  int n = (int)rd.i(), p = (int)rd.i(), opt = (int)rd.i(), nnew = (int)rd.i();
  M X = rd.mat(n, p), N = rd.mat(nnew, p);
  matrix *lx = to_lib(X), *tr; NewMatrix(&tr, n, p);
  dvector *avg, *scl; initDVector(&avg); initDVector(&scl);
  MatrixPreprocess(lx, opt, avg, scl, tr);
  for (int i = 0; i < n; i++) for (int j = 0; j < p; j++)
    VF_CHECK(lx->data[i][j] == (double)X(i, j), "MatrixPreprocess modified its input at (%d,%d)", i, j);
  check_fit(X, opt, lx, avg, scl, tr, "MatrixPreprocess(fit)");
  // the transform is a function of the input: an output container that already holds values gives the same matrix, cell by cell
  // (also at missing-coded cells, whatever the library chooses to put there)
  if (opt >= 0) {
    matrix *ts; NewMatrix(&ts, n, p); MatrixSet(ts, 777.0);
    dvector *a2, *s2; initDVector(&a2); initDVector(&s2);
    MatrixPreprocess(lx, opt, a2, s2, ts);
    for (int i = 0; i < n; i++) for (int j = 0; j < p; j++)
      VF_CHECK(ts->data[i][j] == tr->data[i][j], "MatrixPreprocess(fit) into a re-used output differs from the fresh one at (%d,%d)%s: %.17g vs %.17g (option %d)", i, j, is_missing(X(i, j)) ? " [missing-coded cell]" : "", ts->data[i][j], tr->data[i][j], opt);
    DelMatrix(&ts); DelDVector(&a2); DelDVector(&s2);
  }
  // the individual statistic functions with missing cells
  if (opt >= 0) {
    Prep P1 = ref_preprocess(X, 1), P2 = ref_preprocess(X, 2), P4 = ref_preprocess(X, 4);
    Bounds b1 = bounds(X, P1, 1), b2 = bounds(X, P2, 2);
    dvector *a, *s, *r, *v; initDVector(&a); initDVector(&s); initDVector(&r); initDVector(&v);
    MatrixColAverage(lx, a); MatrixColSDEV(lx, s); MatrixColRMS(lx, r); MatrixColVar(lx, v);
    for (int j = 0; j < p; j++) {
      VF_CLOSE(a->data[j], P1.mean[j], b1.dmu[j] + 1e-300L, "MatrixColAverage");
      VF_CLOSE(s->data[j], P1.scale[j], b1.dsc[j] + 1e-300L, "MatrixColSDEV");
      VF_CLOSE(r->data[j], P2.scale[j], b2.dsc[j] + 1e-300L, "MatrixColRMS");
      VF_CLOSE(v->data[j], P1.scale[j] * P1.scale[j], 2 * P1.scale[j] * b1.dsc[j] + b1.dsc[j] * b1.dsc[j] + 1e-300L, "MatrixColVar");
      double mn, mx; MatrixColumnMinMax(lx, j, &mn, &mx);
      VF_CHECK((ld)mx - (ld)mn == P4.scale[j] || fabsl(((ld)mx - mn) - P4.scale[j]) <= 4 * EPS * fabsl(P4.scale[j]),
               "MatrixColumnMinMax column %d: max-min %.17g, range of the observed cells %.17Lg", j, mx - mn, P4.scale[j]);
    }
    DelDVector(&a); DelDVector(&s); DelDVector(&r); DelDVector(&v);
  }
  // apply path on the training matrix: equals the fit path on observed cells
  if (opt >= 0) {
    matrix *tr2; initMatrix(&tr2);
    MatrixPreprocess(lx, -1, avg, scl, tr2);
    VF_CHECK((int)tr2->row == n && (int)tr2->col == p, "apply path: shape %s", dims(tr2).c_str());
    Prep P = ref_preprocess(X, opt); Bounds b = bounds(X, P, opt);
    for (int i = 0; i < n; i++) for (int j = 0; j < p; j++) {
      if (is_missing(X(i, j))) {   // "reproduces the training transform": also where the training matrix carries the missing code
        VF_CHECK(tr2->data[i][j] == tr->data[i][j], "apply path differs from fit path at the missing-coded cell (%d,%d) option %d: %.17g vs %.17g", i, j, opt, tr2->data[i][j], tr->data[i][j]);
        continue;
      }
      ld tol = 2 * cell_tol(X, P, b, i, j);
      if (!(fabsl((ld)tr2->data[i][j] - tr->data[i][j]) <= tol))
        fail(fmt("apply path differs from fit path at (%d,%d) option %d: %.17g vs %.17g", i, j, opt, tr2->data[i][j], tr->data[i][j]));
    }
    DelMatrix(&tr2);
    // new rows: the same affine map with the stored statistics
    if (nnew > 0) {
      matrix *ln = to_lib(N), *tn; initMatrix(&tn);
      MatrixPreprocess(ln, -1, avg, scl, tn);
      VF_CHECK((int)tn->row == nnew && (int)tn->col == p, "apply path (new rows): shape %s", dims(tn).c_str());
      for (int i = 0; i < nnew; i++) for (int j = 0; j < p; j++) {
        ld sc = scl->data[j], mu = avg->data[j];
        bool zero = P.scale[j] == 0;      // zero-spread training column (its stored scale may carry rounding noise)
        ld ref = zero ? 0 : (N(i, j) - mu) / sc;
        ld tol = zero ? 0 : 8 * EPS * (fabsl(N(i, j)) + fabsl(mu)) / fabsl(sc) + 8 * EPS * fabsl(ref) + 1e-300L;
        VF_CLOSE(tn->data[i][j], ref, tol, fmt("apply path new row (%d,%d) option %d", i, j, opt).c_str());
      }
      DelMatrix(&ln); DelMatrix(&tn);
    }
  }
  DelMatrix(&lx); DelMatrix(&tr); DelDVector(&avg); DelDVector(&scl);
}

// ------------------------------------------------------------------------------------------------
static void gen_tensorcase(Draw &d, Case &c) {
  int o = (int)d.i(1, 4), n = (int)d.sz(2, 30), opt = (int)d.i(-1, 5);
  c.p = {o, n, opt};
  int nmT = 0, nzT = 0;
  for (int k = 0; k < o; k++) {
    int p = (int)d.sz(1, 10);
    M X; int nm, nz; bool r0;
    gen_matrix(d, n, p, opt, d.coin(40), X, nm, nz, r0);
    c.p.push_back(p); put(c, X); nmT += nm; nzT += nz;
  }
  c.nontrivial = o >= 2 && opt >= 2 && (nmT > 0 || nzT > 0);
  c.tags.push_back(fmt("blocks=%d", o)); c.tags.push_back(fmt("option=%d", opt));
}
static void pred_tensorcase(const Case &c) {
  Reader rd(c);
  int o = (int)rd.i(), n = (int)rd.i(), opt = (int)rd.i();
  std::vector<M> B;
  std::vector<int> ps;
  for (int k = 0; k < o; k++) ps.push_back((int)rd.i());
  std::vector<int> &pcols = ps;
  for (int k = 0; k < o; k++) B.push_back(rd.mat(n, pcols[k]));
  tensor *t, *tr; NewTensor(&t, o); NewTensor(&tr, o);
  for (int k = 0; k < o; k++) {
    NewTensorMatrix(t, k, n, pcols[k]); NewTensorMatrix(tr, k, n, pcols[k]);
    for (int i = 0; i < n; i++) for (int j = 0; j < pcols[k]; j++) t->m[k]->data[i][j] = (double)B[k](i, j);
  }
  dvectorlist *avgs, *scls; initDVectorList(&avgs); initDVectorList(&scls);
  TensorPreprocess(t, opt, avgs, scls, tr);
  VF_CHECK((int)avgs->size == o && (int)scls->size == o, "TensorPreprocess stored %zu/%zu statistic vectors for %d blocks", avgs->size, scls->size, o);
  for (int k = 0; k < o; k++) {
    check_fit(B[k], opt, t->m[k], avgs->d[k], scls->d[k], tr->m[k], "TensorPreprocess");
    // block by block bit-identical to MatrixPreprocess
    matrix *m2; NewMatrix(&m2, n, pcols[k]); dvector *a2, *s2; initDVector(&a2); initDVector(&s2);
    MatrixPreprocess(t->m[k], opt, a2, s2, m2);
    VF_CHECK(a2->size == avgs->d[k]->size && s2->size == scls->d[k]->size, "tensor vs matrix preprocessing: statistic sizes differ in block %d", k);
    for (size_t j = 0; j < a2->size; j++) VF_CHECK(a2->data[j] == avgs->d[k]->data[j] && s2->data[j] == scls->d[k]->data[j], "tensor vs matrix preprocessing: statistics differ, block %d column %zu", k, j);
    for (int i = 0; i < n; i++) for (int j = 0; j < pcols[k]; j++)
      VF_CHECK(m2->data[i][j] == tr->m[k]->data[i][j], "tensor vs matrix preprocessing differ at block %d (%d,%d)", k, i, j);
    DelMatrix(&m2); DelDVector(&a2); DelDVector(&s2);
  }
  DelDVectorList(&avgs); DelDVectorList(&scls); DelTensor(&t); DelTensor(&tr);
}

Property &vf::property() {
  static Property p{
      "C10",
      "matrices 2..60 x 1..20 (tensor: 1..4 blocks of 2..30 x 1..10), column = offset (0 or +-1e-2..1e6) + spread (0.05..1e3) * z, "
      "constant columns 12 %, up to 20 % MISSING cells per column (>= 2 observed kept, row 0 favoured), every scale the option uses "
      ">= 0.02 or exactly 0; options -1..5; 0..4 new rows. Oracle: long-double reference statistics/transform with explicit forward "
      "error bounds. Non-trivial: option >= 2 and (missing cells or a zero-spread column).",
      {
          {"matrix", gen_matrixcase, pred_matrixcase, 8000, 30000, 100},
          {"tensor", gen_tensorcase, pred_tensorcase, 2400, 10000, 100},
      }};
  return p;
}
