// C12 — linear solvers, inverses and factorisations satisfy their defining equations.
#include "common.hpp"
using namespace vf;
using namespace orc;

static const ld CT2 = 1e3L;   // safety factor of tolerance T2 (DESIGN.md section 4)

// ---- structured generators -------------------------------------------------------------------
enum Family { GENERAL = 0, PERMUTATION, PERMUTED_TRIANGULAR, TRIANGULAR, DIAGONAL, SPD, SYM_INDEF, NFAM };
static const char *famname[] = {"general", "permutation", "permuted-triangular(zero leading minors)", "triangular", "diagonal", "spd", "symmetric-indefinite"};

static V gen_spectrum(Draw &d, int n, int &kexp) {
  kexp = (int)d.pick<int>({2, 2, 4, 6});
  V s(n);
  for (int i = 0; i < n; i++) s[i] = std::pow(10.0, -d.real(0, kexp));
  if (n >= 1) s[0] = 1;
  if (n >= 2) s[n - 1] = std::pow(10.0, -(double)kexp * d.real(0.5, 1.0));
  std::sort(s.begin(), s.end(), [](ld a, ld b) { return a > b; });
  return s;
}
static std::vector<int> gen_perm(Draw &d, int n) {
  std::vector<int> p(n); for (int i = 0; i < n; i++) p[i] = i;
  for (int i = n - 1; i > 0; i--) { int j = (int)d.i(0, i); std::swap(p[i], p[j]); }
  return p;
}
// returns the matrix (already rounded to double) ; kappa and sigma_max measured by the oracle SVD afterwards
static M gen_square(Draw &d, int n, int fam, std::vector<std::string> &tags) {
  M A(n, n);
  int kexp = 2;
  switch (fam) {
    case GENERAL: {
      V s = gen_spectrum(d, n, kexp);
      M U = gen_orthonormal(d, n, n), W = gen_orthonormal(d, n, n);
      for (int i = 0; i < n; i++) for (int j = 0; j < n; j++) { ld x = 0; for (int k = 0; k < n; k++) x += U(i, k) * s[k] * W(j, k); A(i, j) = x; }
      break;
    }
    case PERMUTATION: {
      auto p = gen_perm(d, n);
      for (int i = 0; i < n; i++) A(i, p[i]) = d.coin(50) ? 1 : -1;
      break;
    }
    case PERMUTED_TRIANGULAR: case TRIANGULAR: {
      M T(n, n);
      bool upper = d.coin(50);
      for (int i = 0; i < n; i++) for (int j = 0; j < n; j++) {
        if (i == j) T(i, j) = (d.coin(50) ? 1 : -1) * d.real(1, 2);
        else if ((upper && j > i) || (!upper && j < i)) T(i, j) = d.real(-1, 1) / n;
      }
      if (fam == TRIANGULAR) { A = T; break; }
      std::vector<int> p = gen_perm(d, n);
      if (d.coin(40)) for (int i = 0; i < n; i++) p[i] = n - 1 - i;   // exchange matrix: every leading minor singular
      for (int i = 0; i < n; i++) for (int j = 0; j < n; j++) A(i, j) = T(p[i], j);
      break;
    }
    case DIAGONAL: { V s = gen_spectrum(d, n, kexp); auto p = gen_perm(d, n); for (int i = 0; i < n; i++) A(i, i) = s[p[i]] * (d.coin(50) ? 1 : -1); break; }
    case SPD: case SYM_INDEF: {
      V s = gen_spectrum(d, n, kexp);
      M Q = gen_orthonormal(d, n, n);
      for (int k = 0; k < n; k++) if (fam == SYM_INDEF && d.coin(50)) s[k] = -s[k];
      for (int i = 0; i < n; i++) for (int j = 0; j <= i; j++) { ld x = 0; for (int k = 0; k < n; k++) x += Q(i, k) * s[k] * Q(j, k); A(i, j) = A(j, i) = (double)x; }
      break;
    }
  }
  double scale = d.pick<double>({1.0, 1.0, 1e3, 1e-3});
  for (auto &x : A.a) x = (double)(x * scale);
  tags.push_back(std::string("family=") + famname[fam]);
  tags.push_back(fmt("scale=%g", scale));
  return A;
}
// does plain elimination in the given row order meet a (relatively) vanishing pivot ?
static bool needs_row_exchange(const M &A0) {
  M A = A0; int n = A.r; ld nrm = maxabs(A);
  for (int k = 0; k < n; k++) {
    if (fabsl(A(k, k)) < 1e-8L * nrm) return true;
    for (int i = k + 1; i < n; i++) { ld f = A(i, k) / A(k, k); for (int j = k; j < n; j++) A(i, j) -= f * A(k, j); }
  }
  return false;
}
static void cond_of(const M &A, ld &smax, ld &smin) { V sv = singular_values(A); smax = sv.empty() ? 0 : sv.front(); smin = sv.empty() ? 0 : sv.back(); }

static void finish_square_case(Case &c, const M &A, int n) {
  ld smax, smin; cond_of(A, smax, smin);
  ld kappa = smin > 0 ? smax / smin : 1e300L;
  bool ex = n >= 2 && needs_row_exchange(A);
  if (ex) c.tags.push_back("needs-row-exchange");
  if (kappa >= 1e4L) c.tags.push_back("kappa>=1e4");
  c.nontrivial = ex || kappa >= 1e4L;
}

// ------------------------------------------------------------------------------------------------
// State of the result container handed to a routine: 0 = fresh (init...), 1 = already of the result's shape and full of stale
// values (an output re-used by the caller), 2 = another shape, stale.  Every routine here sizes its own output, so all three are
// valid calls and must give the same result.
static int draw_ostate(Draw &d, Case &c) { int r = (int)d.i(0, 9); int st = r < 5 ? 0 : r < 8 ? 1 : 2; c.tags.push_back(st == 0 ? "output=fresh" : st == 1 ? "output=reused-same-shape" : "output=reused-other-shape"); return st; }
static matrix *out_matrix(int state, int r, int cc) {
  matrix *m; if (state == 0) { initMatrix(&m); return m; }
  if (state == 2) { r += 1; cc = cc > 1 ? cc - 1 : cc + 2; }
  NewMatrix(&m, (size_t)r, (size_t)cc); for (int i = 0; i < r; i++) for (int j = 0; j < cc; j++) m->data[i][j] = ((i + j) % 4 == 3) ? NAN : (7.25 + i - 0.5 * j) * 1e15;
  return m;
}
static dvector *out_vector(int state, int n) {
  dvector *v; if (state == 0) { initDVector(&v); return v; }
  if (state == 2) n += 2;
  // stale content that cannot hide: huge values and a NaN (anything the routine reads before writing it shows up)
  NewDVector(&v, (size_t)n); for (int i = 0; i < n; i++) v->data[i] = (i % 3 == 1) ? NAN : (i % 2 ? -2.5e15 : 4e15);
  return v;
}

static void gen_inverse(Draw &d, Case &c) {
  int n = (int)d.sz(1, 12), fam = (int)d.i(0, NFAM - 1);
  M A = gen_square(d, n, fam, c.tags);
  c.p = {n, fam, draw_ostate(d, c)}; put(c, A);
  finish_square_case(c, A, n);
}
static void pred_inverse(const Case &c) {
  Reader rd(c); int n = (int)rd.i(); rd.i(); int ost = c.p.size() > 2 ? (int)rd.i() : 0;
  M A = rd.mat(n, n);
  ld smax, smin; cond_of(A, smax, smin);
  VF_CHECK(smin > 0, "generator produced a singular matrix");
  ld kappa = smax / smin, tol = CT2 * n * EPS * kappa;
  matrix *a = to_lib(A);
  for (int which = 0; which < 2; which++) {
    matrix *inv = out_matrix(ost, n, n);
    if (which == 0) MatrixInversion(a, inv); else MatrixLUInversion(a, inv);
    const char *nm = which == 0 ? "MatrixInversion" : "MatrixLUInversion";
    VF_CHECK((int)inv->row == n && (int)inv->col == n, "%s: result shape %s", nm, dims(inv).c_str());
    M X = from_lib(inv);
    VF_CHECK(all_finite(X), "%s: non-finite entries in the inverse of a matrix with condition number %.3Lg (n=%d)", nm, kappa, n);
    // forward error against the oracle inverse: c*n*eps*kappa relative (both routines are forward stable);
    // residuals: c*n*eps*kappa*|A||X| (Gauss-Jordan is not backward stable, Higham ASNA ch. 14, so no sharper residual bound holds)
    M Xr; VF_CHECK(inverse(A, Xr), "oracle: singular");
    ld fe = fro(sub(X, Xr)) / fro(Xr);
    VF_CHECK(fe <= tol, "%s: relative forward error %.3Lg > tol %.3Lg (n=%d, kappa=%.3Lg)", nm, fe, tol, n, kappa);
    M R = sub(mul(A, X), eye(n)), L = sub(mul(X, A), eye(n));
    VF_CHECK(fro(R) <= tol * kappa && fro(L) <= tol * kappa, "%s: |A*Ainv - I| = %.3Lg, |Ainv*A - I| = %.3Lg > tol %.3Lg (n=%d, kappa=%.3Lg)", nm, fro(R), fro(L), tol * kappa, n, kappa);
    DelMatrix(&inv);
  }
  for (int i = 0; i < n; i++) for (int j = 0; j < n; j++) VF_CHECK(a->data[i][j] == (double)A(i, j), "inversion modified its input");
  DelMatrix(&a);
}

// ------------------------------------------------------------------------------------------------
static ld row1_product(const M &A) { ld p = 1; for (int i = 0; i < A.r; i++) { ld s = 0; for (int j = 0; j < A.c; j++) s += fabsl(A(i, j)); p *= s; } return p; }
static void gen_det(Draw &d, Case &c) {
  int n = (int)d.sz(1, 8), f1 = (int)d.i(0, NFAM - 1), f2 = (int)d.i(0, NFAM - 1);
  std::vector<std::string> t2;
  M A = gen_square(d, n, f1, c.tags), B = gen_square(d, n, f2, t2);
  c.p = {n}; put(c, A); put(c, B);
  finish_square_case(c, A, n);
  if (n >= 3) c.nontrivial = true;   // cofactor recursion is entered
}
static void pred_det(const Case &c) {
  Reader rd(c); int n = (int)rd.i();
  M A = rd.mat(n, n), B = rd.mat(n, n);
  M AB = rounded(mul(A, B));
  matrix *a = to_lib(A), *b = to_lib(B), *ab = to_lib(AB);
  double da = MatrixDeterminant(a), db = MatrixDeterminant(b), dab = MatrixDeterminant(ab);
  ld ra = lu_det(A), rb = lu_det(B);
  ld ta = 64 * (n + 1) * EPS * row1_product(A), tb = 64 * (n + 1) * EPS * row1_product(B);
  VF_CLOSE(da, ra, ta + 1e-300L, "MatrixDeterminant(A) vs independent LU");
  VF_CLOSE(db, rb, tb + 1e-300L, "MatrixDeterminant(B) vs independent LU");
  // multiplicativity; AB was rounded to double (relative perturbation eps per entry)
  ld tab = 64 * (n + 1) * EPS * (row1_product(AB) + row1_product(A) * row1_product(B));
  VF_CLOSE(dab, (ld)da * (ld)db, tab + fabsl(da) * tb + fabsl(db) * ta + 1e-300L, "det(AB) = det(A) det(B)");
  DelMatrix(&a); DelMatrix(&b); DelMatrix(&ab);
}

// ------------------------------------------------------------------------------------------------
static void gen_solve(Draw &d, Case &c) {
  int n = (int)d.sz(1, 12), fam = (int)d.i(0, NFAM - 1);
  M A = gen_square(d, n, fam, c.tags);
  V x = V(n); auto xi = d.ivec(n, -1000, 1000); for (int i = 0; i < n; i++) x[i] = (ld)xi[i] / 100;
  V b = matvec(A, x); for (auto &t : b) t = (double)t;
  c.p = {n, draw_ostate(d, c)}; put(c, A); put(c, b);
  finish_square_case(c, A, n);
}
static void pred_solve(const Case &c) {
  Reader rd(c); int n = (int)rd.i(); int ost = c.p.size() > 1 ? (int)rd.i() : 0;
  M A = rd.mat(n, n); V b = rd.vec(n);
  ld smax, smin; cond_of(A, smax, smin); ld kappa = smax / smin;
  M Ab(n, n + 1); for (int i = 0; i < n; i++) { for (int j = 0; j < n; j++) Ab(i, j) = A(i, j); Ab(i, n) = b[i]; }
  matrix *m = to_lib(Ab); dvector *sol = out_vector(ost, n);
  SolveLSE(m, sol);
  VF_CHECK((int)sol->size == n, "SolveLSE: solution size %zu != %d", sol->size, n);
  M B(n, 1); for (int i = 0; i < n; i++) B(i, 0) = b[i];
  M X; VF_CHECK(solve_cp(A, B, X), "oracle: singular");
  ld nx = 0, ne = 0; for (int i = 0; i < n; i++) { nx += X(i, 0) * X(i, 0); ld e = sol->data[i] - X(i, 0); ne += e * e; if (!std::isfinite(sol->data[i])) ne = INFINITY; }
  nx = sqrtl(nx); ne = sqrtl(ne);
  ld tol = CT2 * n * EPS * kappa * (nx + 1e-300L) + 1e-300L;
  VF_CHECK(ne <= tol, "SolveLSE: |x - x_ref| = %.3Lg > tol %.3Lg (n=%d, kappa=%.3Lg, |x_ref|=%.3Lg, x[0]=%.17g ref %.17Lg)", ne, tol, n, kappa, nx, sol->data[0], X(0, 0));
  DelMatrix(&m); DelDVector(&sol);
}

// ------------------------------------------------------------------------------------------------
// rectangular full-column-rank design matrix m x n (m >= n) with known spectrum
static M gen_rect(Draw &d, int m, int n, int maxk, std::vector<std::string> &tags) {
  int mn = std::min(m, n);
  V s(mn); int kexp = (int)d.i(0, maxk);
  for (int i = 0; i < mn; i++) s[i] = std::pow(10.0, -d.real(0, kexp));
  if (mn >= 1) s[0] = 1;
  std::sort(s.begin(), s.end(), [](ld a, ld b) { return a > b; });
  M U = gen_orthonormal(d, m, mn), W = gen_orthonormal(d, n, mn);
  double scale = d.pick<double>({1.0, 1.0, 1e3, 1e-3});
  M A(m, n);
  for (int i = 0; i < m; i++) for (int j = 0; j < n; j++) { ld x = 0; for (int k = 0; k < mn; k++) x += U(i, k) * s[k] * W(j, k); A(i, j) = (double)(x * scale); }
  tags.push_back(fmt("scale=%g", scale)); tags.push_back(fmt("kappa<=1e%d", kexp));
  return A;
}
static void gen_ols(Draw &d, Case &c) {
  int n = (int)d.sz(1, 8), m = n + (int)d.sz(0, 10);
  M A = gen_rect(d, m, n, 3, c.tags);
  auto yi = d.ivec(m, -1000, 1000); V y(m); for (int i = 0; i < m; i++) y[i] = (double)yi[i] / 10;
  if (d.coin(30)) { V x(n); auto xi = d.ivec(n, -100, 100); for (int i = 0; i < n; i++) x[i] = xi[i]; y = matvec(A, x); for (auto &t : y) t = (double)t; c.tags.push_back("consistent-system"); }
  c.p = {m, n, draw_ostate(d, c)}; put(c, A); put(c, y);
  c.nontrivial = m > n && n >= 2;
}
static void pred_ols(const Case &c) {
  Reader rd(c); int m = (int)rd.i(), n = (int)rd.i(); int ost = c.p.size() > 2 ? (int)rd.i() : 0;
  M A = rd.mat(m, n); V y = rd.vec(m);
  ld smax, smin; cond_of(A, smax, smin); ld kappa = smax / smin;
  matrix *a = to_lib(A); dvector *dy = to_lib(y), *coef = out_vector(ost, n);
  OrdinaryLeastSquares(a, dy, coef);
  VF_CHECK((int)coef->size == n, "OrdinaryLeastSquares: %zu coefficients for %d columns", coef->size, n);
  M Y(m, 1); for (int i = 0; i < m; i++) Y(i, 0) = y[i];
  M X; VF_CHECK(lstsq(A, Y, X), "oracle lstsq failed");
  ld nx = 0, ne = 0, ny = norm2(y);
  for (int i = 0; i < n; i++) { nx += X(i, 0) * X(i, 0); ld e = coef->data[i] - X(i, 0); ne += e * e; if (!std::isfinite(coef->data[i])) ne = INFINITY; }
  nx = sqrtl(nx); ne = sqrtl(ne);
  ld tol = CT2 * (m + n) * EPS * kappa * kappa * (nx + ny / smax) + 1e-300L;
  VF_CHECK(ne <= tol, "OrdinaryLeastSquares: |b - b_ref| = %.3Lg > tol %.3Lg (%dx%d, kappa=%.3Lg)", ne, tol, m, n, kappa);
  DelMatrix(&a); DelDVector(&dy); DelDVector(&coef);
}

static void gen_pinv(Draw &d, Case &c) {
  int n = (int)d.sz(1, 8), m = n + (int)d.sz(0, 8);
  M A = gen_rect(d, m, n, 2, c.tags);
  int which = d.coin(35) ? 1 : 0;            // 0 MatrixMoorePenrosePseudoinverse, 1 MatrixPseudoinversion (SVD based)
  c.p = {m, n, which, draw_ostate(d, c)}; put(c, A);
  c.tags.push_back(which ? "routine=MatrixPseudoinversion" : "routine=MatrixMoorePenrosePseudoinverse");
  c.tags.push_back(m > n ? "tall" : "square");
  c.nontrivial = m > n && n >= 2;
}
static void pred_pinv(const Case &c) {
  Reader rd(c); int m = (int)rd.i(), n = (int)rd.i(); int which = c.p.size() > 2 ? (int)rd.i() : 0;
  int ost = c.p.size() > 3 ? (int)rd.i() : 0;
  M A = rd.mat(m, n);
  ld smax, smin; cond_of(A, smax, smin); ld kappa = smax / smin;
  matrix *a = to_lib(A), *inv = out_matrix(ost, n, m);
  const char *RN = which ? "MatrixPseudoinversion" : "MatrixMoorePenrosePseudoinverse";
  if (which) MatrixPseudoinversion(a, inv); else MatrixMoorePenrosePseudoinverse(a, inv);
  VF_CHECK((int)inv->row == n && (int)inv->col == m, "%s: shape %s for a %dx%d input", RN, dims(inv).c_str(), m, n);
  M P = from_lib(inv);
  VF_CHECK(all_finite(P), "%s: non-finite entries (%dx%d, kappa=%.3Lg, sigma_max=%.3Lg)", RN, m, n, kappa, smax);
  ld tol = CT2 * (m + n) * EPS * kappa * kappa;
  M AP = mul(A, P), PA = mul(P, A);
  ld c1 = fro(sub(mul(AP, A), A)) / fro(A), c2 = fro(sub(mul(PA, P), P)) / fro(P);
  ld c3 = fro(sub(AP, transpose(AP))), c4 = fro(sub(PA, transpose(PA)));
  VF_CHECK(c1 <= tol && c2 <= tol && c3 <= tol && c4 <= tol,
           "%s: Penrose residuals %.3Lg %.3Lg %.3Lg %.3Lg > tol %.3Lg (%dx%d, kappa=%.3Lg, sigma_max=%.3Lg)", RN, c1, c2, c3, c4, tol, m, n, kappa, smax);
  DelMatrix(&a); DelMatrix(&inv);
}

// ------------------------------------------------------------------------------------------------
static void gen_eig(Draw &d, Case &c) {
  int n = (int)d.sz(1, 12), fam = d.coin(50) ? SPD : SYM_INDEF;
  if (d.coin(10)) fam = DIAGONAL;
  M A = gen_square(d, n, fam, c.tags);
  if (n >= 3 && d.coin(25)) {
    // repeated eigenvalues (integer entries, exact): a*I + b*v*v' (+ a second rank-one term): eigenvalue a has multiplicity n-1 / n-2
    auto v = d.ivec(n, -2, 2), w = d.ivec(n, -1, 1); int a = (int)d.i(0, 3), b = (int)d.i(1, 2); bool two = d.coin(40);
    bool nz = false; for (auto x : v) if (x) nz = true; if (!nz) v[0] = 1;
    for (int i = 0; i < n; i++) for (int j = 0; j < n; j++) A(i, j) = (double)((i == j ? a : 0) + b * v[i] * v[j] + (two ? w[i] * w[j] : 0));
    c.tags.push_back("repeated-eigenvalues");
  }
  c.p = {n, draw_ostate(d, c)}; put(c, A);
  c.nontrivial = n >= 3;
}
static void pred_eig(const Case &c) {
  Reader rd(c); int n = (int)rd.i(); int ost = c.p.size() > 1 ? (int)rd.i() : 0;
  M A = rd.mat(n, n);
  matrix *a = to_lib(A), *evec = out_matrix(ost, n, n); dvector *eval = out_vector(ost, n);
  EVectEval(a, eval, evec);
  VF_CHECK((int)eval->size == n && (int)evec->row == n && (int)evec->col == n, "EVectEval: output sizes");
  ld nA = fro(A), tol = CT2 * n * EPS * nA + 1e-300L;
  for (int k = 0; k < n; k++) {
    V v(n); for (int i = 0; i < n; i++) v[i] = evec->data[i][k];
    ld nv = norm2(v);
    // an eigenvector need not be a unit vector, but it has to be a vector: not null, and A v = lambda v RELATIVE to its own length
    // (for a repeated eigenvalue a general-matrix solver may return the real part of a complex pair, shorter than 1 - or numerically null)
    VF_CHECK(std::isfinite((double)nv) && nv < 2, "EVectEval: eigenvector %d has norm %.3Lg", k, nv);
    VF_CHECK(nv > 1e-3L, "EVectEval: eigenvector %d is (numerically) the null vector: norm %.3Lg (n=%d)", k, nv, n);
    V Av = matvec(A, v); ld r = 0; for (int i = 0; i < n; i++) { ld e = Av[i] - eval->data[k] * v[i]; r += e * e; }
    VF_CHECK(sqrtl(r) <= tol * nv, "EVectEval: |A v - lambda v| = %.3Lg > tol %.3Lg * |v| for pair %d (n=%d, |v| = %.3Lg)", sqrtl(r), tol, k, n, nv);
  }
  V ev; M E; jacobi_eig(A, ev, E);
  std::vector<double> got(eval->data, eval->data + n); std::sort(got.begin(), got.end(), [](double x, double y) { return x > y; });
  for (int k = 0; k < n; k++) VF_CLOSE(got[k], ev[k], tol, "EVectEval eigenvalue multiset vs Jacobi");
  DelMatrix(&a); DelMatrix(&evec); DelDVector(&eval);
}

// ------------------------------------------------------------------------------------------------
static void gen_svd(Draw &d, Case &c) {
  int m = (int)d.sz(1, 12), n = (int)d.sz(1, 12);
  int shape = (int)d.i(0, 2); if (shape == 0) n = m; else if (shape == 1 && m < n) std::swap(m, n); else if (shape == 2 && m > n) std::swap(m, n);
  M A = gen_rect(d, m, n, 6, c.tags);
  if (d.coin(15) && std::min(m, n) >= 2) { for (int i = 0; i < m; i++) A(i, n - 1) = A(i, 0); c.tags.push_back("rank-deficient"); }
  int which = d.coin(35) ? 1 : 0;            // 0 SVDlapack, 1 SVD ("local implementation")
  c.p = {m, n, which, draw_ostate(d, c)}; put(c, A);
  c.tags.push_back(m > n ? "tall" : m < n ? "wide" : "square");
  c.tags.push_back(which ? "routine=SVD" : "routine=SVDlapack");
  c.nontrivial = m != n;
}
static void pred_svd(const Case &c) {
  Reader rd(c); int m = (int)rd.i(), n = (int)rd.i(); int which = c.p.size() > 2 ? (int)rd.i() : 0;
  int ost = c.p.size() > 3 ? (int)rd.i() : 0; int kk = std::min(m, n);
  M A = rd.mat(m, n);
  matrix *a = to_lib(A), *u = out_matrix(ost, m, kk), *s = out_matrix(ost, kk, kk), *vt = out_matrix(ost, kk, n);
  const char *RN = which ? "SVD" : "SVDlapack";
  if (which) SVD(a, u, s, vt); else SVDlapack(a, u, s, vt);
  VF_CHECK((int)u->row == m && (int)vt->col == n && u->col == s->row && s->col == vt->row,
           "%s: factors not conformable for a %dx%d input: u %s, s %s, vt %s", RN, m, n, dims(u).c_str(), dims(s).c_str(), dims(vt).c_str());
  M U = from_lib(u), S = from_lib(s), VT = from_lib(vt);
  VF_CHECK(all_finite(U) && all_finite(S) && all_finite(VT), "%s: non-finite factor entries", RN);
  V ref = singular_values(A);
  ld smax = ref.empty() ? 0 : ref[0], tol = CT2 * std::max(m, n) * EPS * smax + 1e-300L;
  int k = std::min((int)s->row, (int)s->col);
  VF_CHECK(k >= std::min(m, n), "%s: only %d singular values for a %dx%d input", RN, k, m, n);
  std::vector<double> got; for (int i = 0; i < k; i++) { VF_CHECK(s->data[i][i] >= 0, "%s: negative singular value %g", RN, s->data[i][i]); got.push_back(s->data[i][i]); }
  for (int i = 0; i < (int)s->row; i++) for (int j = 0; j < (int)s->col; j++) if (i != j) VF_CHECK(s->data[i][j] == 0, "%s: s not diagonal", RN);
  std::sort(got.begin(), got.end(), [](double x, double y) { return x > y; });
  for (int i = 0; i < std::min(m, n); i++) VF_CLOSE(got[i], ref[i], tol, which ? "SVD singular value vs one-sided Jacobi" : "SVDlapack singular value vs one-sided Jacobi");
  for (int i = std::min(m, n); i < k; i++) VF_CLOSE(got[i], 0, tol, which ? "SVD surplus singular value" : "SVDlapack surplus singular value");
  M R = sub(mul(mul(U, S), VT), A);
  VF_CHECK(fro(R) <= tol * std::min(m, n), "%s: |U S Vt - A| = %.3Lg > tol %.3Lg (%dx%d)", RN, fro(R), tol * std::min(m, n), m, n);
  for (int i = 0; i < m; i++) for (int j = 0; j < n; j++) VF_CHECK(a->data[i][j] == (double)A(i, j), "%s modified its input", RN);
  DelMatrix(&a); DelMatrix(&u); DelMatrix(&s); DelMatrix(&vt);
}

Property &vf::property() {
  static Property p{
      "C12",
      "sizes 1..12 (determinant 1..8); families: U diag(s) V^T with kappa strata 1e2/1e4/1e6, permutation matrices, row-permuted "
      "triangular (incl. exchange matrix: every leading minor singular), triangular, diagonal, SPD, symmetric indefinite; scale 1, 1e3, "
      "1e-3; rectangular tall/square/wide up to 12x12. Oracles: complete-pivoting elimination, Householder least squares, Jacobi "
      "eigen/singular values in long double; tolerance T2 = 1e3*n*eps*kappa (kappa^2 for normal-equation routines), kappa measured by "
      "the oracle SVD. Non-trivial: plain elimination in the given row order meets a pivot < 1e-8*|A|, or kappa >= 1e4, or rectangular SVD.",
      {
          {"inverse", gen_inverse, pred_inverse, 2400, 20000, 100},
          {"det", gen_det, pred_det, 1200, 8000, 100},
          {"solve", gen_solve, pred_solve, 2400, 20000, 100},
          {"ols", gen_ols, pred_ols, 1600, 12000, 100},
          {"pinv", gen_pinv, pred_pinv, 1600, 12000, 100},
          {"eig", gen_eig, pred_eig, 1200, 10000, 100},
          {"svd", gen_svd, pred_svd, 2000, 16000, 100},
      }};
  return p;
}
