// C14 — containers stay memory-safe and shape-consistent under any operation history.
// One interpreter, driven by rapidcheck (op lists that shrink) and by libFuzzer (bytes -> the same op lists).
#include "common.hpp"
#include "c14_interp.hpp"
using namespace vf;

static void gen_history(Draw &d, Case &c) {
  int nops = (int)d.sz(1, 40);
  c14::Flags fl;
  for (int k = 0; k < nops; k++) {
    int kind = (int)d.i(0, c14::NKINDS - 1);
    int op = (int)d.i(0, 15);
    int64_t a = d.i(0, 11), b = d.i(0, 11), cc = d.i(0, 11), dd = d.i(0, 63);
    c.p.insert(c.p.end(), {kind, op, a, b, cc, dd});
  }
  c14::classify(c.p, fl);
  c.nontrivial = fl.mismatched_append || fl.copy_onto_different || fl.op_after_delete;
  if (fl.mismatched_append) c.tags.push_back("length-mismatched-append");
  if (fl.copy_onto_different) c.tags.push_back("copy-onto-nonempty-different-shape");
  if (fl.op_after_delete) c.tags.push_back("op-after-delete");
  if (fl.oor_access) c.tags.push_back("out-of-range-accessor");
  if (fl.empty_source_copy) c.tags.push_back("copy-from-empty-source");
  c.tags.push_back(fmt("ops<=%d", nops <= 10 ? 10 : nops <= 20 ? 20 : 40));
}
static void pred_history(const Case &c) { c14::run(c.p, true); }

// one container kind at a time (denser interaction inside a kind)
template <int KIND> static void gen_kind(Draw &d, Case &c) {
  int nops = (int)d.sz(1, 40);
  for (int k = 0; k < nops; k++) {
    int kind = KIND;
    if (KIND == c14::K_LIST && d.coin(50)) kind = c14::K_DVEC;          // lists are filled from the dvector pool
    if (KIND == c14::K_TENSOR && d.coin(25)) kind = c14::K_MATRIX;     // TensorAppendMatrix takes matrices from the matrix pool
    c.p.insert(c.p.end(), {kind, d.i(0, 15), d.i(0, 11), d.i(0, 11), d.i(0, 11), d.i(0, 63)});
  }
  c14::Flags fl; c14::classify(c.p, fl);
  c.nontrivial = fl.mismatched_append || fl.copy_onto_different || fl.op_after_delete;
  if (fl.mismatched_append) c.tags.push_back("length-mismatched-append");
  if (fl.copy_onto_different) c.tags.push_back("copy-onto-nonempty-different-shape");
  if (fl.op_after_delete) c.tags.push_back("op-after-delete");
  if (fl.oor_access) c.tags.push_back("out-of-range-accessor");
  if (fl.empty_source_copy) c.tags.push_back("copy-from-empty-source");
}

Property &vf::property() {
  static Property p{
      "C14",
      "operation histories of 1..40 steps (thorough: also libFuzzer-generated ones up to 120) over pools of 3 dvector / uivector / ivector / "
      "strvector / matrix, 2 tensors and 2 dvectorlists; operand lengths drawn around the current shape (0, shorter, equal, longer); every "
      "op is checked against a shadow model (sizes and every cell, all objects of the pool => copies are deep) under ASan+UBSan. "
      "Non-trivial: the history contains a length-mismatched append, a copy onto a non-empty differently shaped target, or an op after a delete.",
      {
          {"mixed", gen_history, pred_history, 12000, 40000, 100},
          {"dvector", gen_kind<c14::K_DVEC>, pred_history, 4000, 12000, 100},
          {"uivector", gen_kind<c14::K_UIVEC>, pred_history, 3000, 8000, 100},
          {"ivector", gen_kind<c14::K_IVEC>, pred_history, 1500, 4000, 100},
          {"strvector", gen_kind<c14::K_STRVEC>, pred_history, 4000, 12000, 100},
          {"matrix", gen_kind<c14::K_MATRIX>, pred_history, 8000, 24000, 100},
          {"tensor", gen_kind<c14::K_TENSOR>, pred_history, 8000, 24000, 100},
          {"list", gen_kind<c14::K_LIST>, pred_history, 2000, 6000, 100},
      }};
  return p;
}
