// C06 — validation results are deterministic under every thread schedule and count.
//  schedules : BootstrapRandomGroupsCV with the library's workers serialised by the scheduler of sched.hpp (hook H2 yield points);
//              the interleaving of the workers' random-number calls is part of the generated case (and shrinks with it)
//  enumerate : every interleaving of the RNG calls for 2 workers x 3/4 objects and 3 workers x 3 objects (depth-first re-execution)
//  freerun   : free-running threads, three repetitions must be bit-identical; the same cases are replayed under ThreadSanitizer
#include "modelgen.hpp"
#ifndef VERIF_NO_SCHED
#include "sched.hpp"
#endif
#include <mutex>
#include <thread>
#include <atomic>
#include <ctime>
using namespace vf;
using namespace orc;

enum Learner { L_PLS = 0, L_MLR = 1, L_LDA = 2 };
static AlgorithmType algo_of(int l) { return l == L_PLS ? _PLS_ : l == L_MLR ? _MLR_ : _LDA_; }
static const char *lname[] = {"PLS", "MLR", "LDA"};

static std::mutex g_mu; static std::map<unsigned, M> g_folds; static int g_foldcalls;
static void fold_hook(const void *gid, unsigned int seed) { std::lock_guard<std::mutex> lk(g_mu); g_folds[seed] = from_lib((const matrix *)gid); g_foldcalls++; }

struct Data { int learner, n, p, ny, nlv; M X, Y; };
static Data small_data(Draw &d, int learner, int nmin, int nmax) {
  Data D; D.learner = learner;
  if (learner == L_LDA) {
    D.p = 1; D.ny = 1; D.nlv = 0; int per = std::max(4, (int)d.i(nmin, nmax) / 2); D.n = 2 * per; D.X = M(D.n, 1); D.Y = M(D.n, 1);
    auto z = d.ivec(D.n, -400, 400);
    for (int i = 0; i < D.n; i++) { D.Y(i, 0) = i % 2; D.X(i, 0) = (i % 2) * 5.0 + (double)z[i] / 200.0; }
  } else {
    D.n = (int)d.i(nmin, nmax); D.p = learner == L_MLR ? 1 : (int)d.i(1, 2); D.ny = (int)d.i(1, 2); D.nlv = learner == L_PLS ? 1 : 0;
    D.X = M(D.n, D.p); D.Y = M(D.n, D.ny);
    auto x = d.ivec((size_t)D.n * D.p, -500, 500); auto y = d.ivec((size_t)D.n * D.ny, -500, 500);
    for (int i = 0; i < D.n; i++) { for (int j = 0; j < D.p; j++) D.X(i, j) = (double)x[(size_t)i * D.p + j] / 16.0 + i * 3.0 * (j + 1); for (int j = 0; j < D.ny; j++) D.Y(i, j) = 2.0 * D.X(i, 0) + (double)y[(size_t)i * D.ny + j] / 64.0; }
  }
  return D;
}
static void put_data(Case &c, const Data &D) { c.p.insert(c.p.end(), {D.learner, D.n, D.p, D.ny, D.nlv}); put(c, D.X); put(c, D.Y); }
static Data read_data(Reader &rd) { Data D; D.learner = (int)rd.i(); D.n = (int)rd.i(); D.p = (int)rd.i(); D.ny = (int)rd.i(); D.nlv = (int)rd.i(); D.X = rd.mat(D.n, D.p); D.Y = rd.mat(D.n, D.ny); return D; }

static M run_boot(const Data &D, int groups, int iters, int threads) {
  matrix *mx = to_lib(D.X), *my = to_lib(D.Y), *py, *pr; initMatrix(&py); initMatrix(&pr);
  MODELINPUT in = initModelInput(); in.mx = mx; in.my = my; in.nlv = (size_t)D.nlv; in.xautoscaling = 1; in.yautoscaling = 0;
  BootstrapRandomGroupsCV(&in, (size_t)groups, (size_t)iters, algo_of(D.learner), py, pr, (size_t)threads, NULL, 0);
  M P = from_lib(py);
  DelMatrix(&mx); DelMatrix(&my); DelMatrix(&py); DelMatrix(&pr);
  return P;
}
static void compare_runs(const M &seq, const std::map<unsigned, M> &fseq, const M &par, const std::map<unsigned, M> &fpar, const std::string &what) {
  VF_CHECK(fpar.size() == fseq.size(), "%s: %zu fold matrices, the sequential run built %zu", what.c_str(), fpar.size(), fseq.size());
  for (auto &kv : fseq) {
    auto it = fpar.find(kv.first);
    VF_CHECK(it != fpar.end(), "%s: no fold matrix for seed %u", what.c_str(), kv.first);
    bool same = it->second.r == kv.second.r && it->second.c == kv.second.c;
    for (size_t q = 0; same && q < kv.second.a.size(); q++) if (it->second.a[q] != kv.second.a[q]) same = false;
    if (!same) {
      std::string a, b; for (ld v : kv.second.a) a += fmt("%d ", (int)v); for (ld v : it->second.a) b += fmt("%d ", (int)v);
      fail(fmt("%s: the random groups drawn for seed %u are [%s] but the same seed gives [%s] in the sequential run: another thread perturbed this worker's random stream", what.c_str(), kv.first, b.c_str(), a.c_str()));
    }
  }
  VF_CHECK(par.r == seq.r && par.c == seq.c, "%s: result shape", what.c_str());
  for (size_t q = 0; q < seq.a.size(); q++) {
    ld tol = 1e-11L * (fabsl(seq.a[q]) + 1);
    if (!(std::isfinite((double)par.a[q]) && fabsl(par.a[q] - seq.a[q]) <= tol)) fail(fmt("%s: prediction %zu = %.15Lg, sequential run %.15Lg", what.c_str(), q, par.a[q], seq.a[q]));
  }
}

#ifndef VERIF_NO_SCHED
static bool foreign_seed_inside(const std::vector<sched::Event> &tr) {
  std::map<int, std::pair<int, int>> span;   // thread -> (index of its srand_, index of its last event)
  for (size_t i = 0; i < tr.size(); i++) { auto &e = tr[i]; if (e.op == 0 && !span.count(e.thread)) span[e.thread] = {(int)i, (int)i}; if (span.count(e.thread)) span[e.thread].second = (int)i; }
  for (auto &kv : span) for (int i = kv.second.first + 1; i < kv.second.second; i++) if (tr[(size_t)i].thread != kv.first && tr[(size_t)i].op == 0) return true;
  return false;
}
static void *noise_thread(void *arg) { int k = *(int *)arg; for (int i = 0; i < k; i++) { srand_(1000u + (unsigned)i); (void)randInt(0, 10); (void)rand_(); } return nullptr; }

struct SchedRun { M pred; std::map<unsigned, M> folds; bool foreign; long decisions; std::vector<int> taken, options; };
static SchedRun scheduled_boot(const Data &D, int groups, int iters, int threads, const std::vector<int> &choices, int noise, bool fine = false) {
  SchedRun r;
  { std::lock_guard<std::mutex> lk(g_mu); g_folds.clear(); g_foldcalls = 0; }
  libsci_verif_fold_hook = fold_hook; libsci_verif_rng_hook = sched::rng_hook;
  sched::S().start(choices, fine);
  pthread_t nt; int nn = noise;
  if (noise > 0) pthread_create(&nt, NULL, noise_thread, &nn);     // registered with the scheduler like a library thread
  r.pred = run_boot(D, groups, iters, threads);
  if (noise > 0) pthread_join(nt, NULL);
  sched::S().stop();
  libsci_verif_rng_hook = nullptr; libsci_verif_fold_hook = nullptr;
  r.folds = g_folds; r.foreign = foreign_seed_inside(sched::S().trace); r.decisions = sched::S().decisions; r.taken = sched::S().taken; r.options = sched::S().options_seen;
  return r;
}
static void sequential(const Data &D, int groups, int iters, M &pred, std::map<unsigned, M> &folds) {
  { std::lock_guard<std::mutex> lk(g_mu); g_folds.clear(); }
  libsci_verif_fold_hook = fold_hook;
  pred = run_boot(D, groups, iters, 1);
  libsci_verif_fold_hook = nullptr; folds = g_folds;
  M again = run_boot(D, groups, iters, 1);
  for (size_t q = 0; q < pred.a.size(); q++) VF_CHECK((double)pred.a[q] == (double)again.a[q], "sequential bootstrap run repeated is not bit-identical");
}

// ---- schedules: random interleavings generated with the data ------------------------------------------
static void gen_sched(Draw &d, Case &c) {
  int learner = (int)d.pick<int>({L_PLS, L_MLR, L_MLR, L_LDA});
  Data D = small_data(d, learner, 5, 12);
  int threads = (int)d.i(2, 4), iters = threads * (int)d.i(1, 2);
  int gmin = 2; while (D.n - (D.n + gmin - 1) / gmin < (learner == L_LDA ? D.n - 2 : D.p + 3) && gmin < D.n) gmin++;
  int groups = (int)d.i(gmin, D.n);
  int noise = d.coin(35) ? (int)d.i(1, 6) : 0;
  int len = (int)d.i(0, 160), fine = d.coin(50) ? 1 : 0;
  put_data(c, D); c.p.insert(c.p.end(), {groups, iters, threads, noise, fine, len});
  auto ch = d.ivec((size_t)len, 0, 7); for (auto x : ch) c.p.push_back(x);
  c.tags.push_back(std::string("learner=") + lname[learner]); c.tags.push_back(fmt("workers=%d", threads)); if (noise) c.tags.push_back("noise-thread"); if (fine) c.tags.push_back("yield-also-inside-generator-calls");
}
static void pred_sched(const Case &c) {
  Reader rd(c); Data D = read_data(rd); int groups = (int)rd.i(), iters = (int)rd.i(), threads = (int)rd.i(), noise = (int)rd.i(), fine = (int)rd.i(), len = (int)rd.i();
  std::vector<int> ch((size_t)len); for (auto &x : ch) x = (int)rd.i();
  M seq; std::map<unsigned, M> fseq; sequential(D, groups, iters, seq, fseq);
  SchedRun r = scheduled_boot(D, groups, iters, threads, ch, noise, fine != 0);
  if (r.foreign) { nontrivial(); tag("foreign-srand-between-seed-and-last-draw"); }
  tag(r.decisions < 10 ? "decisions<10" : r.decisions < 50 ? "decisions<50" : "decisions>=50");
  compare_runs(seq, fseq, r.pred, r.folds, fmt("BootstrapRandomGroupsCV(%s, %d workers, %d iterations, %d groups, n=%d%s) under a generated schedule", lname[D.learner], threads, iters, groups, D.n, noise ? ", noise thread" : ""));
}

// ---- enumerate: all interleavings of tiny configurations --------------------------------------------
static void gen_enum(Draw &d, Case &c) {
  int cfg = (int)d.i(0, 3);   // 0: 2 workers n=3, 1: 2 workers n=4, 2: 3 workers n=3, 3: 2 workers n=3 with yields inside the generator calls
  int workers = cfg == 2 ? 3 : 2, n = cfg == 1 ? 4 : 3;
  Data D = small_data(d, L_MLR, n, n);
  put_data(c, D); c.p.insert(c.p.end(), {workers, cfg});
  c.nontrivial = true; c.tags.push_back(fmt("config=%d-workers-%d-objects%s", workers, n, cfg == 3 ? "-fine" : ""));
}
static void pred_enum(const Case &c) {
  Reader rd(c); Data D = read_data(rd); int workers = (int)rd.i(), cfg = (int)rd.i();
  int groups = D.n, iters = workers;
  M seq; std::map<unsigned, M> fseq; sequential(D, groups, iters, seq, fseq);
  std::vector<int> ch; long count = 0, foreign = 0; const bool thorough = getenv("VERIF_TIER") && std::string(getenv("VERIF_TIER")) == "thorough";
  // configuration 0 is always enumerated completely (a few thousand interleavings); the larger ones are capped in the quick tier
  const long cap = cfg == 0 ? 1000000 : cfg == 1 ? (thorough ? 400000 : 30000) : cfg == 2 ? (thorough ? 30000 : 3000) : (thorough ? 300000 : 10000);
  bool exhausted = false;
  while (true) {
    SchedRun r = scheduled_boot(D, groups, iters, workers, ch, 0, cfg == 3);
    count++; if (r.foreign) foreign++;
    compare_runs(seq, fseq, r.pred, r.folds, fmt("BootstrapRandomGroupsCV(MLR, %d workers, n=%d), interleaving #%ld of the exhaustive enumeration", workers, D.n, count));
    std::vector<int> nx; if (!sched::next_schedule(r.taken, r.options, nx)) { exhausted = true; break; }
    ch = nx; if (count >= cap) break;
  }
  tag(exhausted ? fmt("all-interleavings-enumerated(config %d)", cfg) : fmt("enumeration-capped(config %d)", cfg));
  tag(count < 100 ? "interleavings<100" : count < 1000 ? "interleavings<1e3" : count < 10000 ? "interleavings<1e4" : "interleavings>=1e4");
  VF_CHECK(foreign > 0, "harness: no enumerated interleaving had a foreign srand_ inside a worker's seed..draw window (%ld schedules)", count);
}

// ---- yscramble_sched: YScrambling (bootstrap variant: its inner validation always uses 4 workers x 100 iterations) under a generated
// schedule must equal the run under the canonical schedule (lowest runnable thread first): the shuffle stream of the calling thread
// must not be perturbed by the workers it spawns, whatever their interleaving
static M scheduled_yscramble(const Data &D, int scr_iters, const std::vector<int> &choices, bool fine, bool &foreign) {
  matrix *mx = to_lib(D.X), *my = to_lib(D.Y), *cc; initMatrix(&cc);
  MODELINPUT in = initModelInput(); in.mx = mx; in.my = my; in.nlv = 1; in.xautoscaling = 1; in.yautoscaling = 0;
  ValidationArg va = initValidationArg(); va.vtype = BootstrapRGCV; va.rgcv_group = 3; va.rgcv_iterations = 4;
  libsci_verif_rng_hook = sched::rng_hook;
  sched::S().start(choices, fine);
  YScrambling(&in, _PLS_, va, (size_t)scr_iters, cc, 4, NULL);
  sched::S().stop(); libsci_verif_rng_hook = nullptr;
  foreign = foreign_seed_inside(sched::S().trace);
  M R = from_lib(cc); DelMatrix(&mx); DelMatrix(&my); DelMatrix(&cc);
  return R;
}
static void gen_ysched(Draw &d, Case &c) {
  Data D = small_data(d, L_PLS, 8, 11); D.ny = std::min(D.ny, 1); if (D.Y.c > 1) { M Y1(D.n, 1); for (int i = 0; i < D.n; i++) Y1(i, 0) = D.Y(i, 0); D.Y = Y1; }
  int scr = (int)d.i(1, 2), fine = d.coin(40) ? 1 : 0, len = (int)d.i(50, 400);
  put_data(c, D); c.p.insert(c.p.end(), {scr, fine, len});
  auto ch = d.ivec((size_t)len, 0, 7); for (auto x : ch) c.p.push_back(x);
  c.tags.push_back(fmt("scramble-iterations=%d", scr)); if (fine) c.tags.push_back("yield-also-inside-generator-calls");
}
static void pred_ysched(const Case &c) {
  Reader rd(c); Data D = read_data(rd); int scr = (int)rd.i(), fine = (int)rd.i(), len = (int)rd.i();
  std::vector<int> ch((size_t)len); for (auto &x : ch) x = (int)rd.i();
  bool f0 = false, f1 = false;
  M canon = scheduled_yscramble(D, scr, {}, false, f0);
  M got = scheduled_yscramble(D, scr, ch, fine != 0, f1);
  if (f1) { nontrivial(); tag("foreign-srand-between-seed-and-last-draw"); }
  VF_CHECK(canon.r == got.r && canon.c == got.c && canon.r == scr + 1, "YScrambling result shape %dx%d vs %dx%d", got.r, got.c, canon.r, canon.c);
  for (size_t q = 0; q < canon.a.size(); q++) {
    bool same = (std::isnan((double)canon.a[q]) && std::isnan((double)got.a[q])) || fabsl(canon.a[q] - got.a[q]) <= 1e-11L * (fabsl(canon.a[q]) + 1);
    VF_CHECK(same, "YScrambling (bootstrap validation, 4 workers) under a generated schedule: element %zu = %.15Lg, under the canonical schedule %.15Lg", q, got.a[q], canon.a[q]);
  }
}
#endif

// ---- freerun: free-running threads, repeated runs bit-identical; replayed under ThreadSanitizer ------------
// The wall clock seen by the library is a counter that changes at every call (linker --wrap=time): a routine that falls back to a
// clock seed because nobody seeded its thread's generator gives a different result at every repetition, not once per second.
extern "C" time_t __wrap_time(time_t *t) { static std::atomic<long> clk{1700000000L}; long v = clk.fetch_add(7919); if (t) *t = (time_t)v; return (time_t)v; }

static void gen_free(Draw &d, Case &c) {
  int kind = (int)d.i(0, 5);   // 0 bootstrap, 1 yscrambling(LOO), 2 yscrambling(bootstrap), 3 kmeans, 4 kfold/loo, 5 EPLS (random subspace) under LOO
  int learner = kind == 3 ? L_MLR : (int)d.pick<int>({L_PLS, L_MLR});
  if (kind == 1 || kind == 2 || kind == 5) learner = L_PLS;
  Data D = small_data(d, learner, kind == 2 ? 8 : 10, kind == 2 ? 12 : (kind == 5 ? 16 : 60));
  if (kind == 5) {   // three variables, so that the random subspace (2 of 3) is a real choice
    auto x = d.ivec((size_t)D.n * 3, -500, 500); M X3(D.n, 3);
    for (int i = 0; i < D.n; i++) for (int j = 0; j < 3; j++) X3(i, j) = (double)x[(size_t)i * 3 + j] / 16.0 + (j == 0 ? i * 3.0 : j == 1 ? -(double)i : (double)((i * 7) % 5));
    D.X = X3; D.p = 3; for (int i = 0; i < D.n; i++) for (int j = 0; j < D.ny; j++) D.Y(i, j) = (double)(2.0 * X3(i, 0) - X3(i, 1) + 4.0 * X3(i, 2) + D.Y(i, j) * 0.01);
  }
  int threads = (int)d.i(2, 4), iters = threads * (int)d.i(1, 3), groups = (int)d.i(3, 5), seed = (int)d.i(1, 100000), k = (int)d.i(2, 4), init = (int)d.i(0, 1);
  put_data(c, D); c.p.insert(c.p.end(), {kind, threads, iters, groups, seed, k, init});
  c.nontrivial = true; c.tags.push_back(fmt("kind=%s", kind == 0 ? "bootstrap" : kind == 1 ? "yscrambling-loo" : kind == 2 ? "yscrambling-bootstrap" : kind == 3 ? "kmeans" : kind == 4 ? "kfold+loo" : "epls-random-subspace-loo"));
}
static M free_once(const Data &D, int kind, int threads, int iters, int groups, int seed, int k, int init) {
  if (kind == 0) return run_boot(D, groups, iters, threads);
  matrix *mx = to_lib(D.X), *my = to_lib(D.Y); M R;
  if (kind == 1 || kind == 2) {
    MODELINPUT in = initModelInput(); in.mx = mx; in.my = my; in.nlv = 1; in.xautoscaling = 1; in.yautoscaling = 0;
    ValidationArg va = initValidationArg(); va.vtype = kind == 1 ? LOO : BootstrapRGCV; va.rgcv_group = 3; va.rgcv_iterations = 4;
    matrix *cc; initMatrix(&cc);
    YScrambling(&in, _PLS_, va, (size_t)(kind == 1 ? 3 : 2), cc, (size_t)threads, NULL);
    R = from_lib(cc); DelMatrix(&cc);
  } else if (kind == 3) {
    uivector *lab; initUIVector(&lab); matrix *cen; initMatrix(&cen);
    srand_((uint32_t)seed); KMeans(mx, (size_t)k, init, lab, cen, (size_t)threads);
    R = M((int)lab->size + (int)cen->row, std::max<int>(1, (int)cen->col));
    for (size_t i = 0; i < lab->size; i++) R((int)i, 0) = (ld)lab->data[i];
    for (size_t i = 0; i < cen->row; i++) for (size_t j = 0; j < cen->col; j++) R((int)(lab->size + i), (int)j) = cen->data[i][j];
    DelUIVector(&lab); DelMatrix(&cen);
  } else if (kind == 5) {
    MODELINPUT in = initModelInput(); in.mx = mx; in.my = my; in.nlv = 1; in.xautoscaling = 1; in.yautoscaling = 0;
    ELearningParameters ep = initElearningParameters(); ep.algorithm = FixedRandomSubspaceMethod; ep.n_models = 4; ep.r_fix = (size_t)std::max(1, D.p - 1);   // a proper subset of the variables: which ones are drawn matters ep.trainsize = 0.7;
    matrix *p1, *r1; initMatrix(&p1); initMatrix(&r1);
    LeaveOneOut(&in, _EPLS_, p1, r1, (size_t)threads, NULL, 2, ep, Averaging);
    R = from_lib(p1); DelMatrix(&p1); DelMatrix(&r1);
  } else {
    MODELINPUT in = initModelInput(); in.mx = mx; in.my = my; in.nlv = (size_t)D.nlv; in.xautoscaling = 1; in.yautoscaling = 0;
    matrix *p1, *r1, *p2, *r2; initMatrix(&p1); initMatrix(&r1); initMatrix(&p2); initMatrix(&r2);
    LeaveOneOut(&in, algo_of(D.learner), p1, r1, (size_t)threads, NULL, 0);
    uivector *g; NewUIVector(&g, (size_t)D.n); for (int i = 0; i < D.n; i++) g->data[i] = (size_t)(i % groups);
    KFoldCV(&in, g, algo_of(D.learner), p2, r2, (size_t)threads, NULL, 0);
    M A = from_lib(p1), B = from_lib(p2); R = M(A.r + B.r, A.c);
    for (int i = 0; i < A.r; i++) for (int j = 0; j < A.c; j++) { R(i, j) = A(i, j); R(A.r + i, j) = B(i, j); }
    DelUIVector(&g); DelMatrix(&p1); DelMatrix(&r1); DelMatrix(&p2); DelMatrix(&r2);
  }
  DelMatrix(&mx); DelMatrix(&my);
  return R;
}
static void pred_free(const Case &c) {
  Reader rd(c); Data D = read_data(rd);
  int kind = (int)rd.i(), threads = (int)rd.i(), iters = (int)rd.i(), groups = (int)rd.i(), seed = (int)rd.i(), k = (int)rd.i(), init = (int)rd.i();
  M first = free_once(D, kind, threads, iters, groups, seed, k, init);
  VF_CHECK(all_finite(first), "non-finite result (kind %d)", kind);
  for (int rep = 0; rep < 2; rep++) {
    M again = free_once(D, kind, threads, iters, groups, seed, k, init);
    VF_CHECK(again.a.size() == first.a.size(), "repeated run changed the result shape");
    for (size_t q = 0; q < first.a.size(); q++)
      VF_CHECK((double)first.a[q] == (double)again.a[q], "repetition %d of the same call (kind %d, %d threads, n=%d) differs at element %zu: %.17Lg vs %.17Lg", rep + 2, kind, threads, D.n, q, first.a[q], again.a[q]);
  }
  if (kind != 0 && !(kind == 2 && 4 % threads != 0)) {   // every routine: N threads equal the sequential run (bootstrap variants: counts that divide the iterations)
    M seq = free_once(D, kind, 1, iters, groups, seed, k, init);
    VF_CHECK(seq.a.size() == first.a.size(), "result shape with %d threads differs from the sequential run (kind %d)", threads, kind);
    for (size_t q = 0; q < seq.a.size(); q++) VF_CHECK(fabsl(first.a[q] - seq.a[q]) <= 1e-11L * (fabsl(seq.a[q]) + 1), "kind %d with %d threads differs from the sequential run at element %zu: %.15Lg vs %.15Lg (n=%d)", kind, threads, q, first.a[q], seq.a[q], D.n);
  }
  if (kind == 0) {   // N threads equal the sequential run
    M seq = run_boot(D, groups, iters, 1);
    for (size_t q = 0; q < seq.a.size(); q++) VF_CHECK(fabsl(first.a[q] - seq.a[q]) <= 1e-11L * (fabsl(seq.a[q]) + 1), "bootstrap with %d threads differs from the sequential run at element %zu: %.15Lg vs %.15Lg", threads, q, first.a[q], seq.a[q]);
  }
}

// ------------------------------------------------------------------------------------------------
// the seeded stream itself: seeding twice with the same value gives the same draws - also for the seeds whose internal state is 0
// (state 0 doubles as "never seeded" and falls back to the clock, which here changes at every call)
static void gen_reseed(Draw &d, Case &c) {
  int64_t seed = d.coin(30) ? d.pick<int64_t>({1232228639LL, 614390260LL, 0LL, 1LL, 4294967295LL}) : d.i(0, 4294967295LL);
  c.p = {seed, d.i(1, 12)}; c.nontrivial = true; c.tags.push_back(seed == 1232228639LL || seed == 614390260LL ? "seed-with-zero-state" : "seed=any");
}
static void pred_reseed(const Case &c) {
  uint32_t seed = (uint32_t)c.p[0]; int n = (int)c.p[1];
  std::vector<double> a, b;
  for (int rep = 0; rep < 2; rep++) { srand_(seed); auto &v = rep ? b : a; for (int i = 0; i < n; i++) { v.push_back((double)randInt(0, 1000000)); v.push_back(rand_()); v.push_back(randDouble(-1, 1)); } }
  for (size_t i = 0; i < a.size(); i++) VF_CHECK(a[i] == b[i], "draw %zu after srand_(%u) is %.17g the first time and %.17g the second time", i, seed, a[i], b[i]);
}

Property &vf::property() {
  static Property p{
      "C06",
      "schedules: BootstrapRandomGroupsCV (PLS, MLR, LDA; 5..12 objects; 2..4 workers; iterations a multiple of the workers) with the library's "
      "threads serialised by a scheduler (pthread_create/join wrapped, yield points = hook H2 at every srand_/rand_/randInt/randDouble), the "
      "interleaving being part of the generated case, a harness noise thread calling srand_/randInt/rand_ in 35 % of the cases; enumerate: "
      "every interleaving for 2 workers x 3/4 objects (larger configurations capped, stated by a tag) by depth-first re-execution; yscramble_sched: "
      "YScrambling with its bootstrap validation (4 workers) under a generated schedule vs the canonical schedule; freerun: bootstrap, "
      "YScrambling (LOO and bootstrap variants), KMeans with seeded random initialisers, KFoldCV+LeaveOneOut with free-running threads, three "
      "repetitions bit-identical, the same cases replayed under ThreadSanitizer. Oracle: the sequential run (same seed -> same fold matrix "
      "via hook H4, predictions equal to 1e-11). Non-trivial: a foreign srand_ falls between a worker's srand_ and its last draw.",
      {
#ifndef VERIF_NO_SCHED
          {"schedules", gen_sched, pred_sched, 1600, 6000, 100},
          {"enumerate", gen_enum, pred_enum, 16, 24, 100, false, 900, 0.35},
          {"yscramble_sched", gen_ysched, pred_ysched, 120, 800, 100},
#endif
          {"freerun", gen_free, pred_free, 240, 1200, 100},
          {"reseed", gen_reseed, pred_reseed, 400, 4000, 100},
      }};
  return p;
}
