"""C20 driver: builds the shared library of the current tree and the C-side helper, runs the Hypothesis worker under
python3-vt in a subprocess (a crash of the bindings kills only the worker), turns failures into replay files."""
import os, sys, json, subprocess, shutil, time, hashlib, glob

PROP = "C20"
RULE = ("Hypothesis (python3-vt) generates containers (matrix, dvector, uivector, ivector, tensor, dvectorlist), data sets for PCA / PLS / CPCA "
        "(4..12 objects, 2..5 variables, scalings, 1..3 components), object selections and spline knots; every value read through the repository's "
        "Python package (bound to the library built from the current tree) is compared with the same call made from C (libverifdump.so) and every "
        "model field read through the ctypes _fields_ declarations with the live object as the C code sees it; plus the compiled layout table "
        "(sizeof / offsetof / member kind, in declaration order) of the 10 mirrored structures. Non-trivial: a fitted model with >= 2 components "
        "read field by field (selection: >= 3 objects, spline: >= 4 knots).")


def build_shared(chk):
    flags = ["-O1", "-g", "-fPIC", "-D_GNU_SOURCE", "-std=gnu99", "-w", "-D" + chk.GUARD]
    key = chk.sha(chk.tree_hash(), " ".join(flags), "shared1")
    d = os.path.join(chk.BUILD, "shared-%s" % key)
    so = os.path.join(d, "libscientific.so")
    if os.path.exists(so):
        os.utime(d); return d, so
    os.makedirs(d, exist_ok=True); chk.gen_config(d)
    srcs = [os.path.join(chk.REPO, "src", s) for s in chk.lib_sources()]
    rc, out = chk.run(["gcc"] + flags + ["-shared", "-I", d, "-I", os.path.join(chk.REPO, "src")] + srcs + ["-o", so + ".tmp", "-lopenblas", "-lsqlite3", "-lpthread", "-lm"])
    if rc != 0:
        chk.log("BUILD-ERROR shared library:\n" + out[-3000:]); shutil.rmtree(d, ignore_errors=True); raise SystemExit(3)
    os.rename(so + ".tmp", so)
    chk.prune("shared")
    return d, so


def build_dump(chk, sdir, so):
    c20 = os.path.join(chk.VERIF, "props", "c20")
    h = hashlib.sha256()
    for f in ("ref.c", "gen_layout.py"):
        h.update(open(os.path.join(c20, f), "rb").read())
    key = chk.sha(h.hexdigest(), sdir)
    d = os.path.join(chk.BUILD, "vdump-%s" % key)
    out = os.path.join(d, "libverifdump.so")
    if os.path.exists(out):
        os.utime(d); return out
    os.makedirs(d, exist_ok=True)
    rc, o = chk.run([sys.executable, os.path.join(c20, "gen_layout.py"), os.path.join(chk.REPO, "src"), os.path.join(d, "layout.c")])
    if rc != 0:
        chk.log("HARNESS-ERROR gen_layout: " + o); shutil.rmtree(d, ignore_errors=True); raise SystemExit(3)
    rc, o = chk.run(["gcc", "-O1", "-g", "-fPIC", "-shared", "-w", "-D_GNU_SOURCE", "-I", sdir, "-I", os.path.join(chk.REPO, "src"), os.path.join(c20, "ref.c"), os.path.join(d, "layout.c"),
                     "-o", out + ".tmp", "-L", sdir, "-lscientific", "-Wl,-rpath," + sdir, "-lm"])
    if rc != 0:
        # a C prototype that no longer matches the helper's calls is a harness build problem, reported as such
        chk.log("BUILD-ERROR libverifdump:\n" + o[-3000:]); shutil.rmtree(d, ignore_errors=True); raise SystemExit(3)
    os.rename(out + ".tmp", out)
    chk.prune("vdump")
    return out


def worker(chk, so, dump, extra, timeout=3000):
    env = chk.child_env(); env["PYTHONDONTWRITEBYTECODE"] = "1"
    cmd = ["python3-vt", os.path.join(chk.VERIF, "props", "c20", "c20_hyp.py"), "--lib", so, "--dump", dump, "--pkg", os.path.join(chk.REPO, "src", "python_bindings")] + extra
    try:
        p = subprocess.run(cmd, stdout=subprocess.PIPE, stderr=subprocess.PIPE, text=True, env=env, timeout=timeout)
        return p.returncode, p.stdout, p.stderr
    except subprocess.TimeoutExpired:
        return -999, "", "timeout"


def check(chk, tier, seed):
    res = chk.Result(PROP, tier, seed)
    sdir, so = build_shared(chk); dump = build_dump(chk, sdir, so)
    rdir = os.path.join(chk.VERIF, "evidence", "replay"); os.makedirs(rdir, exist_ok=True)
    # replay tier
    n = 0
    for path in sorted(glob.glob(os.path.join(chk.VERIF, "replays", PROP, "*.json"))):
        n += 1; rc, out, err = worker(chk, so, dump, ["--replay", path])
        if rc != 0: res.violations.append((path, "replay tier: " + (out.strip() or err[-300:])))
    res.extra["replay_tier_cases"] = n
    count = 150 if tier == "quick" else 2000
    subs = ["wrappers", "containers", "pca", "pls", "cpca", "select", "spline"]
    import concurrent.futures
    work = os.path.join(chk.BUILD, "tmp", "c20-%d" % os.getpid()); os.makedirs(work, exist_ok=True)
    def one(sub):
        w = os.path.join(work, sub); os.makedirs(w, exist_ok=True); out = os.path.join(w, "stats.json")
        rc, so_, se_ = worker(chk, so, dump, ["--seed", str(seed), "--count", str(count if sub != "containers" else count * 2), "--out", out, "--work", w, "--only", sub] + (["--budget", os.environ.get("VERIF_THOROUGH_BUDGET_S", "900")] if tier == "thorough" else []))
        return sub, rc, se_, out, w
    layout_fields = 0
    with concurrent.futures.ThreadPoolExecutor(7) as ex:
        for sub, rc, se_, out, w in ex.map(one, subs):
            if os.path.exists(out):
                st = json.load(open(out)); layout_fields = max(layout_fields, st.get("layout_fields", 0))
                s = st["subs"].get(sub, {"evaluations": 0, "nt": [], "samples": []})
                res.subs[sub] = {"evaluations": s["evaluations"], "nt": set(s["nt"]), "tags": {}, "samples": s["samples"], "excluded_known": 0, "inconclusive": 0, "known_sigs": {}, "distinct": s["evaluations"]}
                for f in st["failures"]:
                    path = os.path.join(rdir, "%s-%s-s%d.json" % (PROP, f["sub"], seed)); json.dump({"sub": f["sub"], "example": f["example"]}, open(path, "w"))
                    # confirm: the saved example must fail again
                    if f["sub"] == "layout" or f["example"] is not None:
                        rc2, o2, e2 = worker(chk, so, dump, ["--replay", path])
                        if rc2 != 0: res.violations.append((path, "%s: %s" % (f["sub"], f["msg"])))
                        else: res.flaky.append({"replay": path, "msg": f["msg"]})
            else:
                # the worker died (crash inside the bindings / library): the example being executed is the witness
                cur = os.path.join(w, "current_example.json"); path = os.path.join(rdir, "%s-%s-crash-s%d.json" % (PROP, sub, seed))
                if os.path.exists(cur):
                    shutil.copy(cur, path); rc2, o2, e2 = worker(chk, so, dump, ["--replay", path])
                    if rc2 != 0: res.violations.append((path, "%s: worker died (rc %s): %s" % (sub, rc, se_[-300:].replace("\n", " | "))))
                    else: res.extra.setdefault("harness_errors", []).append("worker for %s died without a reproducible example: %s" % (sub, se_[-300:]))
                else:
                    res.extra.setdefault("harness_errors", []).append("worker for %s failed before the first example: %s" % (sub, se_[-500:]))
    shutil.rmtree(work, ignore_errors=True)
    res.extra["layout_fields_compared"] = layout_fields
    chk.write_evidence(res, RULE, assumptions=["gcc's sizeof/offsetof for the headers of the current tree is the C side of the layout comparison",
                                             "a parameter whose declared integer width differs without effect under the x86-64 calling convention is NOT detected (see DESIGN.md, C20)",
                                             "hypothesis 6.168 from the tooling venv (python3-vt)"])
    return chk.finish(res)


def replay(chk, path):
    sdir, so = build_shared(chk); dump = build_dump(chk, sdir, so)
    rc, out, err = worker(chk, so, dump, ["--replay", path])
    print(out, end="")
    if rc != 0:
        print("VIOLATION property=%s replay=%s" % (PROP, path))
    return 0 if rc == 0 else 1


def setup(chk):
    sdir, so = build_shared(chk); build_dump(chk, sdir, so)
