// C13 — multithreaded kernels equal their sequential definition for any thread count.
#include "common.hpp"
using namespace vf;
using namespace orc;

extern "C" void getLabels_(matrix *m, matrix *centroids, uivector *labels, int nthreads);
extern "C" void getLabels(matrix *m, matrix *centroids, uivector *labels);

static const int MAXR = 40, MAXT = 24, NC = 5;
enum Kernel { K_MV = 0, K_VM, K_DIST_E, K_DIST_SE, K_DIST_M, K_DIST_C, K_COND_E, K_COND_SE, K_COND_M, K_COND_C, K_LABELS, K_KMPP, K_MDC, NKERNEL };
static const char *kname[] = {"MT_MatrixDVectorDotProduct", "MT_DVectorMatrixDotProduct", "CalculateDistance(EUCLIDEAN)", "CalculateDistance(SQUARE_EUCLIDEAN)",
                              "CalculateDistance(MANHATTAN)", "CalculateDistance(COSINE)", "EuclideanDistanceCondensed", "SquaredEuclideanDistanceCondensed",
                              "ManhattanDistanceCondensed", "CosineDistanceCondensed", "getLabels_", "KMeansppCenters", "MDC"};

static ld metric(int which, const M &A, int i, const M &B, int k, ld *sumabs = nullptr) {
  ld s = 0, sa = 0, n = 0, da = 0, db = 0;
  for (int j = 0; j < A.c; j++) {
    ld d = A(i, j) - B(k, j);
    if (which == 2) { s += fabsl(d); sa += fabsl(d); } else { s += d * d; sa += d * d; }
    n += A(i, j) * B(k, j); da += A(i, j) * A(i, j); db += B(k, j) * B(k, j);
  }
  if (sumabs) *sumabs = (which == 3) ? 1 : (which == 0 ? sqrtl(sa) : sa);
  if (which == 0) return sqrtl(s);
  if (which == 3) return n / (sqrtl(da) * sqrtl(db));
  return s;
}

// ------------------------------------------------------------------------------------------------
// slicing: ONE kernel per case, EVERY (rows, threads) pair with rows 0..40 and threads 1..24
static void gen_slicing(Draw &d, Case &c) {
  int kernel = (int)d.i(0, NKERNEL - 1);
  c.p = {kernel};
  auto a = gen_values(d, (size_t)MAXR * NC, -2, 2, false, true);   // strictly positive
  auto b = gen_values(d, (size_t)6 * NC, -2, 2, false, true);
  auto v = gen_values(d, MAXR, -2, 2, false, true);
  // unit of the data: a third of the cases are rescaled by an exact power of two up to 2^40 (distances beyond any "large value"
  // sentinel); the order of all distances, hence labels and selections, is unchanged by construction
  { int e = d.coin(66) ? 0 : (int)d.pick<int>({20, 30, 40}); if (e) { double f = std::ldexp(1.0, e); for (auto &x : a) x *= f; for (auto &x : b) x *= f; } c.p.push_back(e); }
  for (auto *x : {&a, &b, &v}) c.v.insert(c.v.end(), x->begin(), x->end());
  c.v.push_back((double)d.i(1, 1000));   // seed for the kernels that draw random numbers
  c.nontrivial = true;
  c.tags = {std::string("kernel=") + kname[kernel], "all-984-(rows,threads)-pairs", fmt("unit=2^%d", (int)c.p.back())};
}
static M topblock(const M &A, int r) { M B(r, A.c); for (int i = 0; i < r; i++) for (int j = 0; j < A.c; j++) B(i, j) = A(i, j); return B; }

static void pred_slicing(const Case &c) {
  Reader rd(c);
  int kernel = (int)rd.i();
  M A = rd.mat(MAXR, NC), B2 = rd.mat(6, NC); V v = rd.vec(MAXR); int seed = (int)rd.d();
  for (int rows = 0; rows <= MAXR; rows++) {
    M Ar = topblock(A, rows);
    matrix *m = to_lib(Ar), *m2 = to_lib(B2);
    for (int th = 1; th <= MAXT; th++) {
      const std::string where = fmt("%s rows=%d threads=%d", kname[kernel], rows, th);
      if (kernel == K_MV || kernel == K_VM) {
        // product split over the rows (K_MV: rows of the matrix; K_VM: the transposed use, split over columns of a rows-column matrix)
        libsci_verif_nproc = (size_t)th;
        if (kernel == K_MV) {
          V x(v.begin(), v.begin() + NC); dvector *dx = to_lib(x), *p1, *p2, *p3; NewDVector(&p1, rows); NewDVector(&p2, rows); NewDVector(&p3, rows);
          MT_MatrixDVectorDotProduct(m, dx, p1); MatrixDVectorDotProduct(m, dx, p2); MT_MatrixDVectorDotProduct(m, dx, p3);
          // "the single-threaded result to rounding; bit-identical between repeated runs": the data are strictly positive, so a row
          // that is skipped or visited twice is off by 100 %, far outside the rounding of NC products
          for (int i = 0; i < rows; i++) { ld s = 0; for (int j = 0; j < NC; j++) s += Ar(i, j) * x[j];
            if (p1->data[i] != p3->data[i]) fail(fmt("%s: row %d = %.17g in one run and %.17g in the next", where.c_str(), i, p1->data[i], p3->data[i]));
            if (fabsl(p1->data[i] - (ld)p2->data[i]) > 64 * NC * EPS * fabsl(s) || fabsl(p1->data[i] - s) > 64 * NC * EPS * fabsl(s)) fail(fmt("%s: row %d = %.17g, sequential %.17g, definition %.17Lg", where.c_str(), i, p1->data[i], p2->data[i], s)); }
          DelDVector(&dx); DelDVector(&p1); DelDVector(&p2); DelDVector(&p3);
        } else {
          M At = transpose(Ar); matrix *mt = to_lib(At);   // NC x rows: the kernel splits the columns
          V x(v.begin(), v.begin() + NC); dvector *dx = to_lib(x), *p1, *p2, *p3; NewDVector(&p1, rows); NewDVector(&p2, rows); NewDVector(&p3, rows);
          MT_DVectorMatrixDotProduct(mt, dx, p1); DVectorMatrixDotProduct(mt, dx, p2); MT_DVectorMatrixDotProduct(mt, dx, p3);
          for (int i = 0; i < rows; i++) { ld s = 0; for (int j = 0; j < NC; j++) s += Ar(i, j) * x[j];
            if (p1->data[i] != p3->data[i]) fail(fmt("%s: column %d = %.17g in one run and %.17g in the next", where.c_str(), i, p1->data[i], p3->data[i]));
            if (fabsl(p1->data[i] - (ld)p2->data[i]) > 64 * NC * EPS * fabsl(s) || fabsl(p1->data[i] - s) > 64 * NC * EPS * fabsl(s)) fail(fmt("%s: column %d = %.17g, sequential %.17g, definition %.17Lg (an accumulating kernel shows a column visited twice as a doubled value)", where.c_str(), i, p1->data[i], p2->data[i], s)); }
          DelMatrix(&mt); DelDVector(&dx); DelDVector(&p1); DelDVector(&p2); DelDVector(&p3);
        }
      } else if (kernel >= K_DIST_E && kernel <= K_DIST_C) {
        int which = kernel - K_DIST_E;
        matrix *d1, *d2, *d3; initMatrix(&d1); initMatrix(&d2); initMatrix(&d3);
        CalculateDistance(m, m2, d1, (size_t)th, (enum cmethod)which); CalculateDistance(m, m2, d3, (size_t)th, (enum cmethod)which);
        if (which == 0) EuclideanDistance_ST(m, m2, d2); else if (which == 1) SquaredEuclideanDistance_ST(m, m2, d2); else if (which == 2) ManhattanDistance_ST(m, m2, d2); else CosineDistance_ST(m, m2, d2);
        if ((int)d1->row != 6 || (int)d1->col != rows) fail(fmt("%s: result is %s, expected 6x%d", where.c_str(), dims(d1).c_str(), rows));
        for (int k = 0; k < 6; k++) for (int i = 0; i < rows; i++) {
          ld ref = metric(which, Ar, i, B2, k);
          if ((int)d3->row != 6 || (int)d3->col != rows || d1->data[k][i] != d3->data[k][i]) fail(fmt("%s: distance of object %d to point %d differs between two runs", where.c_str(), i, k));
          if (fabsl(d1->data[k][i] - (ld)d2->data[k][i]) > 64 * (NC + 2) * EPS * fabsl(ref) + 1e-300L || fabsl(d1->data[k][i] - ref) > 64 * (NC + 2) * EPS * fabsl(ref) + 1e-300L)
            fail(fmt("%s: distance of object %d to point %d = %.17g, single-thread %.17g, definition %.17Lg", where.c_str(), i, k, d1->data[k][i], d2->data[k][i], ref));
        }
        DelMatrix(&d1); DelMatrix(&d2); DelMatrix(&d3);
      } else if (kernel >= K_COND_E && kernel <= K_COND_C) {
        int which = kernel - K_COND_E;
        dvector *dv; initDVector(&dv);
        if (which == 0) EuclideanDistanceCondensed(m, dv, (size_t)th); else if (which == 1) SquaredEuclideanDistanceCondensed(m, dv, (size_t)th);
        else if (which == 2) ManhattanDistanceCondensed(m, dv, (size_t)th); else CosineDistanceCondensed(m, dv, (size_t)th);
        size_t expect = rows >= 2 ? (size_t)rows * (rows - 1) / 2 : 0;
        if (dv->size != expect) fail(fmt("%s: condensed vector has %zu entries, expected %zu", where.c_str(), dv->size, expect));
        for (int i = 0; i < rows; i++) for (int k = i + 1; k < rows; k++) {
          size_t idx = square_to_condensed_index((size_t)i, (size_t)k, (size_t)rows);
          if (idx >= expect) fail(fmt("%s: index map (%d,%d) -> %zu outside [0,%zu)", where.c_str(), i, k, idx, expect));
          ld ref = metric(which, Ar, i, Ar, k);
          if (fabsl(dv->data[idx] - ref) > 64 * (NC + 2) * EPS * fabsl(ref) + 1e-300L) fail(fmt("%s: pair (%d,%d) = %.17g, definition %.17Lg", where.c_str(), i, k, dv->data[idx], ref));
        }
        DelDVector(&dv);
      } else if (kernel == K_LABELS) {
        if (rows == 0) continue;
        uivector *l1, *l2; NewUIVector(&l1, rows); NewUIVector(&l2, rows);
        for (int i = 0; i < rows; i++) l1->data[i] = l2->data[i] = 777;   // poison: an unvisited row keeps it
        getLabels_(m, m2, l1, th); getLabels(m, m2, l2);
        for (int i = 0; i < rows; i++) {
          int best = 0; ld bd = metric(0, Ar, i, B2, 0); for (int k = 1; k < 6; k++) { ld t = metric(0, Ar, i, B2, k); if (t < bd) { bd = t; best = k; } }
          if (l1->data[i] != l2->data[i] || (int)l1->data[i] != best) fail(fmt("%s: label of object %d = %zu, single-thread %zu, nearest centroid %d", where.c_str(), i, l1->data[i], l2->data[i], best));
        }
        DelUIVector(&l1); DelUIVector(&l2);
      } else if (kernel == K_KMPP || kernel == K_MDC) {
        if (rows < 3 || (th > 8 && th % 5 != 0)) continue;   // selection algorithms: result must not depend on the thread count
        int nsel = std::min(3, rows);
        uivector *s1, *s2; initUIVector(&s1); initUIVector(&s2);
        if (kernel == K_KMPP) { srand_((uint32_t)seed); KMeansppCenters(m, (size_t)nsel, s1, th); srand_((uint32_t)seed); KMeansppCenters(m, (size_t)nsel, s2, 1); }
        else { MDC(m, (size_t)nsel, 0, s1, (size_t)th); MDC(m, (size_t)nsel, 0, s2, 1); }
        if (s1->size != s2->size || (int)s1->size != nsel) fail(fmt("%s: %zu selections, single-thread %zu, requested %d", where.c_str(), s1->size, s2->size, nsel));
        for (size_t k = 0; k < s1->size; k++) if (s1->data[k] != s2->data[k] || s1->data[k] >= (size_t)rows) fail(fmt("%s: selection %zu = %zu, single-thread %zu", where.c_str(), k, s1->data[k], s2->data[k]));
        DelUIVector(&s1); DelUIVector(&s2);
      }
    }
    DelMatrix(&m); DelMatrix(&m2);
  }
}

// ------------------------------------------------------------------------------------------------
// values: distance matrices satisfy their definitions; condensed = strict upper triangle of the square form
static void gen_values_case(Draw &d, Case &c) {
  int n = (int)d.sz(1, 60), p = (int)d.sz(1, 10), th = (int)d.i(1, 24);
  int k = (int)d.i(-3, 3);
  c.p = {n, p, th};
  auto a = gen_values(d, (size_t)n * p, k, k, false);
  for (auto &x : a) if (x == 0) x = std::pow(10.0, k);   // cosine needs non-zero rows
  c.v = a;
  c.nontrivial = th > n || n % th != 0 || n <= 1;
  c.tags.push_back(th > n ? "threads>rows" : n % th ? "rows%threads!=0" : "rows%threads==0");
}
static void pred_values_case(const Case &c) {
  Reader rd(c);
  int n = (int)rd.i(), p = (int)rd.i(), th = (int)rd.i();
  M A = rd.mat(n, p);
  matrix *m = to_lib(A);
  ld amax = maxabs(A);
  for (int which = 0; which < 4; which++) {
    matrix *dm; initMatrix(&dm);
    CalculateDistance(m, m, dm, (size_t)th, (enum cmethod)which);
    VF_CHECK((int)dm->row == n && (int)dm->col == n, "CalculateDistance(%d) shape %s", which, dims(dm).c_str());
    dvector *cd; initDVector(&cd);
    if (which == 0) EuclideanDistanceCondensed(m, cd, (size_t)th); else if (which == 1) SquaredEuclideanDistanceCondensed(m, cd, (size_t)th);
    else if (which == 2) ManhattanDistanceCondensed(m, cd, (size_t)th); else CosineDistanceCondensed(m, cd, (size_t)th);
    VF_CHECK(cd->size == (size_t)n * (n - 1) / 2, "condensed size %zu for %d objects", cd->size, n);
    // absolute rounding level of one distance (differences of values up to amax)
    ld lvl = (which == 1) ? 64 * (p + 2) * EPS * amax * amax * p : (which == 3) ? 64 * (p + 2) * EPS : 64 * (p + 2) * EPS * amax * std::sqrt((double)p) * 2;
    for (int i = 0; i < n; i++) {
      if (which != 3) VF_CHECK(dm->data[i][i] == 0.0, "self-distance of object %d = %g (metric %d)", i, dm->data[i][i], which);
      else VF_CLOSE(dm->data[i][i], 1.0, lvl, "cosine of an object with itself");
      for (int k = 0; k < n; k++) {
        ld ref = metric(which, A, i, A, k);
        VF_CLOSE(dm->data[k][i], ref, (which == 3 ? lvl : 64 * (p + 2) * EPS * fabsl(ref)) + 1e-300L, fmt("CalculateDistance metric %d (%d,%d) vs definition", which, i, k).c_str());
        VF_CHECK(dm->data[k][i] == dm->data[i][k], "distance matrix not symmetric at (%d,%d) metric %d", i, k, which);
        if (which != 3) VF_CHECK(dm->data[k][i] >= 0, "negative distance");
        if (i < k) {
          size_t idx = square_to_condensed_index((size_t)i, (size_t)k, (size_t)n);
          VF_CHECK(idx < cd->size, "condensed index out of range");
          VF_CHECK(cd->data[idx] == dm->data[k][i], "condensed[%zu] = %.17g but square(%d,%d) = %.17g (metric %d, threads %d)", idx, cd->data[idx], i, k, dm->data[k][i], which, th);
        }
      }
    }
    if (which == 0 || which == 2) for (int i = 0; i < n; i++) for (int j = 0; j < n; j++) for (int k = 0; k < std::min(n, 12); k++)
      VF_CHECK(dm->data[i][j] <= dm->data[i][k] + dm->data[k][j] + 3 * lvl, "triangle inequality violated for (%d,%d,%d), metric %d", i, j, k, which);
    DelMatrix(&dm); DelDVector(&cd);
  }
  DelMatrix(&m);
}

// ------------------------------------------------------------------------------------------------
// index map: bijection of {(i,j): i<j<n} onto [0, n(n-1)/2) for every n <= 40 (enumerated inside the case), symmetric in (i,j)
static void gen_index(Draw &d, Case &c) { c.p = {d.i(41, 80)}; c.nontrivial = true; c.tags = {"n<=40-exhaustive+one-larger-n"}; }
static void pred_index(const Case &c) {
  std::vector<int> ns; for (int n = 0; n <= 40; n++) ns.push_back(n); ns.push_back((int)c.p[0]);
  for (int n : ns) {
    size_t total = n >= 2 ? (size_t)n * (n - 1) / 2 : 0; std::vector<char> seen(total, 0);
    for (int i = 0; i < n; i++) for (int j = i + 1; j < n; j++) {
      size_t a = square_to_condensed_index((size_t)i, (size_t)j, (size_t)n), b = square_to_condensed_index((size_t)j, (size_t)i, (size_t)n);
      VF_CHECK(a == b, "index map not symmetric for (%d,%d), n=%d", i, j, n);
      VF_CHECK(a < total, "index map (%d,%d) -> %zu outside [0,%zu), n=%d", i, j, a, total, n);
      VF_CHECK(!seen[a], "index map not injective: (%d,%d) collides at %zu, n=%d", i, j, a, n);
      seen[a] = 1;
    }
  }
}

Property &vf::property() {
  static Property p{
      "C13",
      "slicing: each case takes one of 13 kernels and runs EVERY (rows, threads) pair with rows 0..40 and threads 1..24 (984 pairs) on strictly "
      "positive generated values, output into zero-initialised / poisoned buffers, compared with the single-thread routine (bit-equal) and the "
      "long-double definition; values: matrices up to 60x10, all four metrics, 1..24 threads: definition, symmetry, zero self-distance, "
      "non-negativity, triangle inequality, condensed == strict upper triangle; index: bijection enumerated for every n <= 40. "
      "Non-trivial: threads > rows, or rows % threads != 0, or rows <= 1 (every slicing case contains all of them).",
      {
          {"slicing", gen_slicing, pred_slicing, 104, 400, 100},
          {"values", gen_values_case, pred_values_case, 600, 3000, 100},
          {"index", gen_index, pred_index, 8, 16, 100, true},
      }};
  return p;
}
