// C08 — LDA predicts the arg-max discriminant and is invariant to affine re-coding.
#include "modelgen.hpp"
using namespace vf;
using namespace orc;

struct LdaData { M X; std::vector<int> y; M Xt; };

static void gen_c08(Draw &d, Case &c) {
  int K = (int)d.i(2, 5), p = (int)d.i(2, 6);
  bool balanced = d.coin(50);
  int base = (int)d.sz(4, 40);
  std::vector<int> nk(K); int n = 0;
  for (int k = 0; k < K; k++) { nk[k] = balanced ? base : (int)d.sz(4, 40); nk[k] = std::max(nk[k], p + 2 > 4 ? 4 : 4); n += nk[k]; }
  int start = d.coin(50) ? 1 : 0;
  double sep = d.pick<double>({1.5, 3.0, 6.0, 20.0, 30.0});
  // within-class covariance L L^T with condition number <= 50
  M Q = gen_orthonormal(d, p, p); V sd(p); for (int j = 0; j < p; j++) sd[j] = std::pow(50.0, 0.5 * d.real(0, 1)) * 0.3;
  double scale = std::pow(10.0, (double)d.i(-2, 2));
  ld smax = 0; for (ld s : sd) smax = std::max(smax, s);
  // class centres: simplex-like directions at distance sep * sigma_max
  M Cn(K, p); { auto ci = d.ivec((size_t)K * p, -100, 100); for (int k = 0; k < K; k++) { ld nr = 0; for (int j = 0; j < p; j++) { Cn(k, j) = (ld)ci[(size_t)k * p + j] + (j == k % p ? 150 : 0); nr += Cn(k, j) * Cn(k, j); } nr = sqrtl(nr); for (int j = 0; j < p; j++) Cn(k, j) = Cn(k, j) / nr * sep * smax * (1 + k); } }
  int ntest = (int)d.i(1, 8);
  M X(n, p), Xt(ntest, p); std::vector<int> y(n);
  auto z = d.ivec((size_t)(n + ntest) * p, -1732, 1732);   // uniform noise with unit variance after /1000
  int r = 0;
  for (int k = 0; k < K; k++) for (int i = 0; i < nk[k]; i++, r++) {
    y[r] = k + start;
    for (int j = 0; j < p; j++) { ld s = 0; for (int q = 0; q < p; q++) s += Q(j, q) * sd[q] * (ld)z[(size_t)r * p + q] / 1000; X(r, j) = (double)((Cn(k, j) + s) * scale); }
  }
  for (int i = 0; i < ntest; i++) { int k = (int)d.i(0, K - 1); for (int j = 0; j < p; j++) { ld s = 0; for (int q = 0; q < p; q++) s += Q(j, q) * sd[q] * (ld)z[(size_t)(n + i) * p + q] / 1000; Xt(i, j) = (double)((Cn(k, j) + s) * scale); } }
  // shuffle the training rows so that classes are not contiguous
  for (int i = n - 1; i > 0; i--) { int j = (int)d.i(0, i); std::swap(y[i], y[j]); for (int q = 0; q < p; q++) std::swap(X(i, q), X(j, q)); }
  // affine map with condition number <= 100 and a shift
  M Q1 = gen_orthonormal(d, p, p), Q2 = gen_orthonormal(d, p, p); double ka = d.real(1, 100); M A(p, p);
  for (int i = 0; i < p; i++) for (int j = 0; j < p; j++) { ld s = 0; for (int q = 0; q < p; q++) s += Q1(i, q) * std::pow(ka, (double)q / std::max(1, p - 1)) / std::sqrt(ka) * Q2(j, q); A(i, j) = (double)s; }
  c.p = {K, p, n, ntest, start, (int64_t)(sep * 10)};
  for (int i = 0; i < n; i++) c.p.push_back(y[i]);
  for (int i = n - 1; i > 0; i--) c.p.push_back(d.i(0, i));   // row permutation
  put(c, X); put(c, Xt); put(c, A);
  for (int j = 0; j < p; j++) c.v.push_back(d.real(-5, 5) * scale);
  c.nontrivial = (K >= 3 && start == 1) || !balanced;
  c.tags.push_back(fmt("classes=%d", K)); c.tags.push_back(start ? "labels-from-1" : "labels-from-0"); c.tags.push_back(balanced ? "balanced" : "unbalanced"); c.tags.push_back(fmt("sep=%g", sep));
}

struct Fit { M mu, icov, scoresTr, scoresTe; V pp; std::vector<int> predTr, predTe; int nclass, cstart; };
static Fit fit_predict(const M &X, const std::vector<int> &y, const M &Xt) {
  int n = X.r;
  matrix *mx = to_lib(X), *my; NewMatrix(&my, n, 1); for (int i = 0; i < n; i++) my->data[i][0] = y[i];
  LDAMODEL *m; NewLDAModel(&m);
  LDA(mx, my, m);
  Fit f; f.mu = from_lib(m->mu); f.icov = from_lib(m->inv_cov); f.pp = from_lib(m->pprob); f.nclass = (int)m->nclass; f.cstart = (int)m->class_start;
  for (int round = 0; round < 2; round++) {
    matrix *z = round == 0 ? mx : to_lib(Xt), *pf, *pr, *mn, *pd; initMatrix(&pf); initMatrix(&pr); initMatrix(&mn); initMatrix(&pd);
    LDAPrediction(z, m, pf, pr, mn, pd);
    (round == 0 ? f.scoresTr : f.scoresTe) = from_lib(pr);
    auto &pv = round == 0 ? f.predTr : f.predTe; for (size_t i = 0; i < pd->row; i++) pv.push_back((int)std::lround(pd->data[i][0]));
    if (round == 1) DelMatrix(&z);
    DelMatrix(&pf); DelMatrix(&pr); DelMatrix(&mn); DelMatrix(&pd);
  }
  DelLDAModel(&m); DelMatrix(&mx); DelMatrix(&my);
  return f;
}

static void pred_c08(const Case &c) {
  Reader rd(c);
  int K = (int)rd.i(), p = (int)rd.i(), n = (int)rd.i(), ntest = (int)rd.i(), start = (int)rd.i(); double sep = rd.i() / 10.0;
  std::vector<int> y(n); for (auto &v : y) v = (int)rd.i();
  std::vector<int> perm(n); for (int i = 0; i < n; i++) perm[i] = i; for (int i = n - 1; i > 0; i--) std::swap(perm[i], perm[(int)rd.i()]);
  M X = rd.mat(n, p), Xt = rd.mat(ntest, p), A = rd.mat(p, p); V sh = rd.vec(p);
  Fit f = fit_predict(X, y, Xt);
  VF_CHECK(f.nclass == K && f.cstart == start, "LDA found %d classes starting at %d; data have %d classes starting at %d", f.nclass, f.cstart, K, start);
  VF_CHECK(f.mu.r == K && f.mu.c == p && (int)f.pp.size() == K && f.icov.r == p && f.icov.c == p, "LDA model shapes");
  VF_CHECK(all_finite(f.icov) && all_finite(f.mu), "LDA model not finite");
  // priors and class means
  ld ps = 0;
  for (int k = 0; k < K; k++) {
    int cnt = 0; V s(p, 0), sa(p, 0);
    for (int i = 0; i < n; i++) if (y[i] == k + start) { cnt++; for (int j = 0; j < p; j++) { s[j] += X(i, j); sa[j] += fabsl(X(i, j)); } }
    VF_CLOSE(f.pp[k], (ld)cnt / n, 4 * EPS, fmt("prior of class %d vs frequency", k).c_str());
    for (int j = 0; j < p; j++) VF_CLOSE(f.mu(k, j), s[j] / cnt, tol_T1(cnt, sa[j] / cnt), fmt("mean of class %d, feature %d", k, j).c_str());
    ps += f.pp[k];
  }
  VF_CLOSE(ps, 1, 16 * EPS, "priors sum to 1");
  // discriminant scores recomputed from the stored model; prediction = arg-max, expressed in the training labels
  V sv = singular_values(f.icov); ld kC = sv.front() / sv.back();
  auto check_scores = [&](const M &Z, const M &S, const std::vector<int> &pred, const char *who, std::vector<ld> *margins) {
    VF_CHECK(S.r == Z.r && S.c == K && (int)pred.size() == Z.r, "%s: score matrix %dx%d, %zu predictions for %d objects", who, S.r, S.c, pred.size(), Z.r);
    for (int i = 0; i < Z.r; i++) {
      V fk(K); ld mabs = 0;
      for (int k = 0; k < K; k++) {
        ld a = 0, b = 0, aa = 0, bb = 0;
        for (int u = 0; u < p; u++) for (int v = 0; v < p; v++) { ld t1 = f.mu(k, u) * f.icov(u, v) * Z(i, v), t2 = f.mu(k, u) * f.icov(u, v) * f.mu(k, v); a += t1; b += t2; aa += fabsl(t1); bb += fabsl(t2); }
        fk[k] = a - b / 2 + logl(f.pp[k]); ld mag = aa + bb / 2 + fabsl(logl(f.pp[k])); mabs = std::max(mabs, mag);
        VF_CLOSE(S(i, k), fk[k], 64 * (p * p + 2) * EPS * mag + 1e-300L, fmt("%s: discriminant score of object %d for class %d vs stored mu/inv_cov/pprob", who, i, k).c_str());
      }
      int am = 0; for (int k = 1; k < K; k++) if (S(i, k) > S(i, am)) am = k;
      V srt(fk.begin(), fk.end()); std::sort(srt.begin(), srt.end(), [](ld x, ld z) { return x > z; });
      if (margins) margins->push_back((srt[0] - srt[1]) / (mabs + 1e-300L));
      VF_CHECK(pred[i] >= start && pred[i] < start + K, "%s: predicted label %d for object %d does not occur in the training labels %d..%d", who, pred[i], i, start, start + K - 1);
      VF_CHECK(pred[i] == am + start, "%s: predicted label %d for object %d but the arg-max of the stored discriminant is class %d (label %d)", who, pred[i], i, am, am + start);
    }
  };
  std::vector<ld> mTr, mTe;
  check_scores(X, f.scoresTr, f.predTr, "training", &mTr);
  check_scores(Xt, f.scoresTe, f.predTe, "test", &mTe);
  if (sep >= 20) for (int i = 0; i < n; i++) VF_CHECK(f.predTr[i] == y[i], "well separated classes (sep %.0f sigma): training object %d of class %d predicted as %d", sep, i, y[i], f.predTr[i]);
  // affine re-coding of the features and reordering of the training objects
  {
    V svA = singular_values(A); ld kA = svA.front() / svA.back();
    auto map = [&](const M &Z) { M R(Z.r, p); for (int i = 0; i < Z.r; i++) for (int j = 0; j < p; j++) { ld s = sh[j]; for (int q = 0; q < p; q++) s += A(j, q) * Z(i, q); R(i, j) = (double)s; } return R; };
    M X2(n, p); std::vector<int> y2(n); M XA = map(X);
    for (int i = 0; i < n; i++) { y2[i] = y[perm[i]]; for (int j = 0; j < p; j++) X2(i, j) = XA(perm[i], j); }
    M Xt2 = map(Xt);
    Fit g = fit_predict(X2, y2, Xt2);
    V sv2 = singular_values(g.icov); ld kC2 = sv2.front() / sv2.back();
    auto cmp = [&](const M &S1, const M &S2, const M &Z1, const M &Z2, const std::vector<int> &p1, const std::vector<int> &p2, const std::vector<ld> &marg, bool permuted, const char *who) {
      for (int i = 0; i < S1.r; i++) {
        int i2 = i; if (permuted) { for (int q = 0; q < n; q++) if (perm[q] == i) { i2 = q; break; } }
        // magnitudes of the score terms in both codings (the shift makes the individual terms large; their difference is invariant)
        ld mag = 0;
        for (int k = 0; k < K; k++) { ld a1 = 0, a2 = 0; for (int u = 0; u < p; u++) for (int v = 0; v < p; v++) { a1 += fabsl(f.mu(k, u) * f.icov(u, v)) * (fabsl(Z1(i, v)) + fabsl(f.mu(k, v)) / 2); a2 += fabsl(g.mu(k, u) * g.icov(u, v)) * (fabsl(Z2(i2, v)) + fabsl(g.mu(k, v)) / 2); } mag = std::max(mag, a1 + a2); }
        ld tol = 1e3L * (p * p + n) * EPS * (kC + kC2 * kA) * (mag + 1) + 1e-300L;
        for (int k = 1; k < K; k++) {
          ld d1 = S1(i, k) - S1(i, 0), d2 = S2(i2, k) - S2(i2, 0);
          VF_CHECK(fabsl(d1 - d2) <= tol, "%s object %d: score difference class %d vs 0 changed from %.12Lg to %.12Lg under the affine map / reordering (tol %.3Lg, kappa(A)=%.3Lg)", who, i, k, d1, d2, tol, kA);
        }
        if (marg[i] * (mag + 1) > 4 * tol) VF_CHECK(p1[i] == p2[i2], "%s object %d: prediction changed from %d to %d under the affine map / reordering", who, i, p1[i], p2[i2]);
      }
    };
    cmp(f.scoresTr, g.scoresTr, X, X2, f.predTr, g.predTr, mTr, true, "training");
    cmp(f.scoresTe, g.scoresTe, Xt, Xt2, f.predTe, g.predTe, mTe, false, "test");
  }
  // per-class ROC summaries for perfect predictions (labels numbered from 0)
  {
    matrix *yt; NewMatrix(&yt, n, 1); for (int i = 0; i < n; i++) yt->data[i][0] = y[i] - start;
    tensor *roc, *pr; initTensor(&roc); initTensor(&pr); dvector *ra, *pa; initDVector(&ra); initDVector(&pa);
    LDAMulticlassStatistics(yt, yt, roc, ra, pr, pa);
    int expect = K == 2 ? 1 : K;
    VF_CHECK((int)ra->size == expect, "LDAMulticlassStatistics returned %zu AUC values for %d classes", ra->size, K);
    for (size_t k = 0; k < ra->size; k++) VF_CLOSE(ra->data[k], 1.0, 1e-12L, fmt("LDAMulticlassStatistics(y, y): AUC of class %zu for perfect predictions", k).c_str());
    DelMatrix(&yt); DelTensor(&roc); DelTensor(&pr); DelDVector(&ra); DelDVector(&pa);
  }
}

Property &vf::property() {
  static Property p{
      "C08",
      "2..5 classes, 2..6 features, 4..40 objects per class (balanced or unbalanced), labels from 0 or from 1 (50/50), class centres at "
      "separation 1.5..30 sigma, within-class covariance with condition number <= 50, data scale 1e-2..1e2, rows shuffled; 1..8 test rows; "
      "affine map x -> A x + c with kappa(A) <= 100 and a row permutation. Oracle: priors/means by definition, discriminant recomputed from "
      "the stored mu/inv_cov/pprob in long double, arg-max in training labels, zero training error at >= 20 sigma, invariance of score "
      "differences (tolerance from kappa(A) and kappa(inv_cov)), AUC = 1 for LDAMulticlassStatistics(y, y). Non-trivial: >= 3 classes with "
      "labels from 1, or unbalanced classes.",
      {
          {"lda", gen_c08, pred_c08, 1600, 5000, 100},
      }};
  return p;
}
