// libFuzzer driver of the C14 interpreter: bytes -> operation list (6 bytes per op) -> the same shadow-model interpreter that
// rapidcheck drives.  The semantic oracle (shadow model) runs inside the target; ASan/UBSan make memory errors visible.
#include "common.hpp"
#include "engine_core.hpp"
#include "c14_interp.hpp"
#include <unistd.h>
#include <fcntl.h>
extern "C" int LLVMFuzzerTestOneInput(const uint8_t *data, size_t size) {
  c14::g_skip_abort_ops = true;
  std::vector<int64_t> p;
  size_t nops = std::min<size_t>(size / 6, 120);
  for (size_t k = 0; k < nops * 6; k++) p.push_back((int64_t)data[k]);
  static int devnull = -1;
  if (devnull < 0) { devnull = open("/dev/null", O_WRONLY); }
  // the library prints error messages for out-of-range accessors: keep the fuzzer's output readable
  int saved = dup(1); fflush(stdout); dup2(devnull, 1);
  vf::capture_begin();
  bool failed = false;
  try { c14::run(p, true); } catch (...) { failed = true; }
  std::string msg = vf::capture_end();
  fflush(stdout); dup2(saved, 1); close(saved);
  if (failed) { fprintf(stderr, "SHADOW-MODEL-MISMATCH %s\n", msg.c_str()); __builtin_trap(); }
  return 0;
}
// engine_core.cpp refers to the property table; the fuzz target has none of its own
namespace vf { Property &property() { static Property p{"C14", "fuzz", {}}; return p; } }
