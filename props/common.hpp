// Helpers shared by the property harnesses: conversions between oracle and library containers,
// value generators, comparison helpers.
#pragma once
#include "engine.hpp"
#include "oracle.hpp"
#include "lsci.hpp"
#include <cmath>

namespace vf {
using orc::ld;
using orc::M;
using orc::V;

// ---- conversions ---------------------------------------------------------------------------
inline matrix *to_lib(const M &A) {
  matrix *m; NewMatrix(&m, (size_t)A.r, (size_t)A.c);
  for (int i = 0; i < A.r; i++) for (int j = 0; j < A.c; j++) m->data[i][j] = (double)A(i, j);
  return m;
}
inline M from_lib(const matrix *m) {
  M A((int)m->row, (int)m->col);
  for (size_t i = 0; i < m->row; i++) for (size_t j = 0; j < m->col; j++) A((int)i, (int)j) = m->data[i][j];
  return A;
}
inline dvector *to_lib(const V &v) {
  dvector *d; NewDVector(&d, v.size());
  for (size_t i = 0; i < v.size(); i++) d->data[i] = (double)v[i];
  return d;
}
inline V from_lib(const dvector *d) { V v(d->size); for (size_t i = 0; i < d->size; i++) v[i] = d->data[i]; return v; }
// matrix rounded to double (what the library actually receives)
inline M rounded(const M &A) { M B = A; for (auto &x : B.a) x = (double)x; return B; }

// ---- case payload reader ---------------------------------------------------------------------
struct Reader {
  const Case &c; size_t ip = 0, iv = 0;
  explicit Reader(const Case &c_) : c(c_) {}
  int64_t i() { if (ip >= c.p.size()) fail("replay file too short (p)"); return c.p[ip++]; }
  double d() { if (iv >= c.v.size()) fail("replay file too short (v)"); return c.v[iv++]; }
  M mat(int r, int cc) { M A(r, cc); for (auto &x : A.a) x = d(); return A; }
  V vec(int n) { V v(n); for (auto &x : v) x = d(); return v; }
};
inline void put(Case &c, const M &A) { for (auto x : A.a) c.v.push_back((double)x); }
inline void put(Case &c, const V &v) { for (auto x : v) c.v.push_back((double)x); }

// ---- value generators ---------------------------------------------------------------------------
// n values  s * m/1000 * 10^k : m in [0, 9999], sign random, k either one per call or one per value
inline std::vector<double> gen_values(Draw &d, size_t n, int kmin, int kmax, bool mixed, bool positive = false) {
  std::vector<double> out(n);
  auto mant = d.ivec(n, positive ? 1 : -9999, 9999);
  std::vector<int64_t> ex;
  int64_t k0 = d.i(kmin, kmax);
  if (mixed) ex = d.ivec(n, kmin, kmax);
  for (size_t i = 0; i < n; i++) out[i] = (double)mant[i] / 1000.0 * std::pow(10.0, (double)(mixed ? ex[i] : k0));
  return out;
}
// random orthonormal n x k from rapidcheck integers
inline M gen_orthonormal(Draw &d, int n, int k) { return orc::orthonormal(n, k, d.ivec((size_t)n * k, -1000, 1000)); }

// log-uniform real in [10^a, 10^b]
inline double gen_logu(Draw &d, double a, double b) { return std::pow(10.0, d.real(a, b)); }

// ---- comparisons ---------------------------------------------------------------------------------
inline bool finite(double x) { return std::isfinite(x); }
inline std::string dims(const matrix *m) { return fmt("%zux%zu", m->row, m->col); }

#define VF_CLOSE(got, ref, tol, what)                                                                   \
  do {                                                                                                  \
    double g__ = (double)(got); long double r__ = (ref), t__ = (tol);                                   \
    if (!(std::isfinite(g__) && fabsl((long double)g__ - r__) <= t__))                                  \
      ::vf::fail(::vf::fmt("%s: got %.17g expected %.17Lg (|diff| %.3Lg > tol %.3Lg)", what, g__, r__,  \
                           fabsl((long double)g__ - r__), t__));                                        \
  } while (0)

}  // namespace vf
