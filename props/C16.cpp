// C16 — a saved model reads back equal to the model last written, whatever came before.
#include "modelgen.hpp"
#include "engine_core.hpp"
#include <unistd.h>
#include <sys/stat.h>
#include <array>
using namespace vf;
using namespace orc;

// scratch directory of this case (one per forked child) under <verif>/build/tmp; removed at the end of the case,
// leftovers of crashed children are removed by the driver
static std::string verif_dir_for_tmp() {
  std::string b = verif_dir() + "/build"; mkdir(b.c_str(), 0755); b += "/tmp"; mkdir(b.c_str(), 0755);
  std::string d = b + "/c16-" + std::to_string((long)getpid()); mkdir(d.c_str(), 0755); return d;
}

typedef std::vector<std::pair<std::string, std::vector<double>>> Flat;   // field -> [dims..., values...]
static void fv(Flat &f, const char *n, const dvector *v) { std::vector<double> x{(double)v->size}; for (size_t i = 0; i < v->size; i++) x.push_back(v->data[i]); f.push_back({n, x}); }
static void fm(Flat &f, const char *n, const matrix *m) { std::vector<double> x{(double)m->row, (double)m->col}; for (size_t i = 0; i < m->row; i++) for (size_t j = 0; j < m->col; j++) x.push_back(m->data[i][j]); f.push_back({n, x}); }
static void ft(Flat &f, const char *n, const tensor *t) { std::vector<double> x{(double)t->order}; for (size_t k = 0; k < t->order; k++) { x.push_back((double)t->m[k]->row); x.push_back((double)t->m[k]->col); for (size_t i = 0; i < t->m[k]->row; i++) for (size_t j = 0; j < t->m[k]->col; j++) x.push_back(t->m[k]->data[i][j]); } f.push_back({n, x}); }
static void fl(Flat &f, const char *n, const dvectorlist *l) { std::vector<double> x{(double)l->size}; for (size_t k = 0; k < l->size; k++) { x.push_back((double)l->d[k]->size); for (size_t i = 0; i < l->d[k]->size; i++) x.push_back(l->d[k]->data[i]); } f.push_back({n, x}); }

static Flat flat_pca(const PCAMODEL *m) { Flat f; fv(f, "colaverage", m->colaverage); fv(f, "colscaling", m->colscaling); fv(f, "varexp", m->varexp); fm(f, "scores", m->scores); fm(f, "loadings", m->loadings); fm(f, "dmodx", m->dmodx); return f; }   // every field of PCAMODEL (pca.h)
static Flat flat_cpca(const CPCAMODEL *m) { Flat f; fv(f, "scaling_factor", m->scaling_factor); fv(f, "total_expvar", m->total_expvar); ft(f, "block_scores", m->block_scores); ft(f, "block_loadings", m->block_loadings);
  fm(f, "super_scores", m->super_scores); fm(f, "super_weights", m->super_weights); fl(f, "block_expvar", m->block_expvar); fl(f, "colaverage", m->colaverage); fl(f, "colscaling", m->colscaling); return f; }
static Flat flat_pls(const PLSMODEL *m) { Flat f; fv(f, "xcolscaling", m->xcolscaling); fv(f, "xcolaverage", m->xcolaverage); fv(f, "ycolscaling", m->ycolscaling); fv(f, "ycolaverage", m->ycolaverage); fv(f, "xvarexp", m->xvarexp); fv(f, "b", m->b);
  fm(f, "xscores", m->xscores); fm(f, "xloadings", m->xloadings); fm(f, "xweights", m->xweights); fm(f, "yscores", m->yscores); fm(f, "yloadings", m->yloadings); fm(f, "recalculated_y", m->recalculated_y); fm(f, "recalc_residuals", m->recalc_residuals);
  fm(f, "predicted_y", m->predicted_y); fm(f, "pred_residuals", m->pred_residuals); fm(f, "r2y_validation", m->r2y_validation); fm(f, "r2y_recalculated", m->r2y_recalculated); fm(f, "q2y", m->q2y); fm(f, "sdep", m->sdep); fm(f, "sdec", m->sdec); fm(f, "bias", m->bias);
  fm(f, "roc_auc_recalculated", m->roc_auc_recalculated); fm(f, "roc_auc_validation", m->roc_auc_validation); fm(f, "precision_recall_ap_recalculated", m->precision_recall_ap_recalculated); fm(f, "precision_recall_ap_validation", m->precision_recall_ap_validation);
  fm(f, "yscrambling", m->yscrambling); ft(f, "roc_recalculated", m->roc_recalculated); ft(f, "roc_validation", m->roc_validation); ft(f, "precision_recall_recalculated", m->precision_recall_recalculated); ft(f, "precision_recall_validation", m->precision_recall_validation); return f; }

static void same_bits(const Flat &a, const Flat &b, const char *what) {
  VF_CHECK(a.size() == b.size(), "%s: field count changed", what);
  for (size_t k = 0; k < a.size(); k++) { VF_CHECK(a[k].second.size() == b[k].second.size(), "%s: field %s changed its size", what, a[k].first.c_str()); for (size_t i = 0; i < a[k].second.size(); i++) VF_CHECK(a[k].second[i] == b[k].second[i] || (std::isnan(a[k].second[i]) && std::isnan(b[k].second[i])), "%s: field %s element %zu changed from %.17g to %.17g", what, a[k].first.c_str(), i, a[k].second[i], b[k].second[i]); }
}
// flat layout: the leading entries of each field are dimensions (exact), the rest values (1e-15*max(1,|v|))
static void same_model(const Flat &saved, const Flat &read, const char *what) {
  VF_CHECK(saved.size() == read.size(), "%s: field count", what);
  for (size_t k = 0; k < saved.size(); k++) {
    const auto &s = saved[k].second, &r = read[k].second; const char *n = saved[k].first.c_str();
    if (s.size() != r.size()) {
      std::string sd, rdm; for (size_t i = 0; i < std::min<size_t>(3, s.size()); i++) sd += fmt("%g ", s[i]); for (size_t i = 0; i < std::min<size_t>(3, r.size()); i++) rdm += fmt("%g ", r[i]);
      fail(fmt("%s: field %s read back with %zu entries (leading dims %s), the model last written has %zu (leading dims %s)", what, n, r.size(), rdm.c_str(), s.size(), sd.c_str()));
    }
    for (size_t i = 0; i < s.size(); i++) if (!(std::fabs(s[i] - r[i]) <= 1e-15 * std::max(1.0, std::fabs(s[i]))))
      fail(fmt("%s: field %s element %zu read back as %.17g, written %.17g", what, n, i, r[i], s[i]));
  }
}

struct ModelSpec { int kind, n, p, ny, ncomp, scaling, mag, nb; M X, Y; };   // kind 0 PCA, 1 PLS, 2 CPCA
struct Built { int kind; PCAMODEL *pca = nullptr; PLSMODEL *pls = nullptr; CPCAMODEL *cpca = nullptr; matrix *mx = nullptr; tensor *tx = nullptr; Flat flat; };

static void gen_model(Draw &d, Case &c) {
  ModelSpec s; s.kind = (int)d.i(0, 2); s.n = (int)d.i(4, 8); s.p = (int)d.i(2, 4); s.ny = (int)d.i(1, 2); s.nb = 2;
  s.mag = (int)d.pick<int>({-9, -6, -3, 0, 0, 3, 6, 9});
  s.scaling = s.mag == 0 ? (int)d.i(-1, 3) : (int)d.i(-1, 0);    // small/large magnitudes only with options that have no zero guard
  if (s.kind == 2 && s.scaling < 0) s.scaling = 0;
  s.ncomp = std::min((int)d.i(1, 3), s.p);     // up to 3 components: tensors with a third block (block scores of CPCA, per-LV tables of PLS)
  V sp = gen_ratio_spectrum(d, std::min(s.n - 1, s.p * (s.kind == 2 ? 2 : 1)), 0.2, 0.8);
  M X = gen_lowrank(d, s.n, s.p * (s.kind == 2 ? 2 : 1), sp, (double)s.mag, false);
  if (s.mag == 0) enforce_scale_domain(X, s.scaling);
  c.p.insert(c.p.end(), {s.kind, s.n, s.p, s.ny, s.ncomp, s.scaling, s.mag});
  put(c, X);
  // the responses get a magnitude of their own in half of the cases (x in 1e8, y in 1e-9: regression coefficients of 1e-17 - numbers
  // a fixed-point text representation cannot hold)
  int ymag = d.coin(50) ? s.mag : (int)d.pick<int>({-9, -6, -3, 0, 3, 6, 9});
  auto y = d.ivec((size_t)s.n * s.ny, -500, 500); for (int i = 0; i < s.n; i++) for (int j = 0; j < s.ny; j++) c.v.push_back(((double)y[(size_t)i * s.ny + j] / 50.0 + X(i, 0) / std::pow(10.0, s.mag)) * std::pow(10.0, ymag));
  if (ymag != s.mag) c.tags.push_back("x-and-y-on-different-magnitudes");
  c.tags.push_back(s.kind == 0 ? "model=PCA" : s.kind == 1 ? "model=PLS" : "model=CPCA");
}
static ModelSpec read_spec(Reader &rd) {
  ModelSpec s; s.kind = (int)rd.i(); s.n = (int)rd.i(); s.p = (int)rd.i(); s.ny = (int)rd.i(); s.ncomp = (int)rd.i(); s.scaling = (int)rd.i(); s.mag = (int)rd.i();
  s.X = rd.mat(s.n, s.p * (s.kind == 2 ? 2 : 1)); s.Y = rd.mat(s.n, s.ny); return s;
}
static Built build(const ModelSpec &s) {
  Built b; b.kind = s.kind; libsci_verif_nproc = 1;
  if (s.kind == 0) { b.mx = to_lib(s.X); NewPCAModel(&b.pca); PCA(b.mx, s.scaling, (size_t)s.ncomp, b.pca, NULL); b.flat = flat_pca(b.pca); }
  else if (s.kind == 1) {
    b.mx = to_lib(s.X); matrix *my = to_lib(s.Y); NewPLSModel(&b.pls); PLS(b.mx, my, (size_t)s.ncomp, s.scaling, s.scaling < 0 ? -1 : 0, b.pls, NULL); DelMatrix(&my);
    // some validation fields filled, the rest left empty (fresh model)
    ResizeMatrix(b.pls->q2y, (size_t)s.ncomp, (size_t)s.ny); for (int i = 0; i < s.ncomp; i++) for (int j = 0; j < s.ny; j++) b.pls->q2y->data[i][j] = 0.1 * (i + 1) - 0.01 * j;
    // validation statistics and curves as a validated (PLS-DA style) model carries them; which ones, and their shapes, depend on the model
    if ((s.n + s.p) % 2 == 0) { ResizeMatrix(b.pls->sdep, (size_t)s.ncomp, (size_t)s.ny); MatrixSet(b.pls->sdep, 0.25 * s.n); ResizeMatrix(b.pls->bias, (size_t)s.ncomp, (size_t)s.ny); MatrixSet(b.pls->bias, 0.5); }
    if (s.n % 3 != 0) {
      tensor *ts[4] = {b.pls->roc_recalculated, b.pls->roc_validation, b.pls->precision_recall_recalculated, b.pls->precision_recall_validation};
      for (int q = 0; q < 4; q++) for (int k = 0; k < s.ncomp + q % 2; k++) { AddTensorMatrix(ts[q], (size_t)(s.n - k), (size_t)(2 * s.ny)); MatrixSet(ts[q]->m[k], 0.125 * (q + 1) + k + 0.001 * s.p); }
      ResizeMatrix(b.pls->roc_auc_validation, (size_t)s.ncomp, (size_t)s.ny); MatrixSet(b.pls->roc_auc_validation, 0.75);
    }
    b.flat = flat_pls(b.pls);
  } else {
    NewTensor(&b.tx, 2); for (int k = 0; k < 2; k++) { NewTensorMatrix(b.tx, (size_t)k, (size_t)s.n, (size_t)s.p); for (int i = 0; i < s.n; i++) for (int j = 0; j < s.p; j++) b.tx->m[k]->data[i][j] = (double)s.X(i, k * s.p + j); }
    NewCPCAModel(&b.cpca); CPCA(b.tx, s.scaling, (size_t)s.ncomp, b.cpca); b.flat = flat_cpca(b.cpca);
  }
  return b;
}
static double colmax(const matrix *a, size_t j) { double m = 0; for (size_t i = 0; i < a->row; i++) m = std::max(m, std::fabs(a->data[i][j])); return m; }
// "a model read back predicts the same": relative to the size of the predictions of that column (no absolute floor: a model of
// small magnitude predicts small numbers)
static void check_predictions(const Built &b, const char *path) {
  auto cmp = [&](const matrix *a, const matrix *r, const char *who) {
    VF_CHECK(a->row == r->row && a->col == r->col, "%s from the model read back: shape %s vs %s", who, dims(r).c_str(), dims(a).c_str());
    for (size_t i = 0; i < a->row; i++) for (size_t j = 0; j < a->col; j++) VF_CHECK(std::fabs(a->data[i][j] - r->data[i][j]) <= 1e-11 * (std::fabs(a->data[i][j]) + colmax(a, j)) + 1e-300, "%s differs between the saved and the read model at (%zu,%zu): %.15g vs %.15g", who, i, j, a->data[i][j], r->data[i][j]);
  };
  if (b.kind == 0) { PCAMODEL *r; NewPCAModel(&r); ReadPCA((char *)path, r); matrix *p1, *p2; initMatrix(&p1); initMatrix(&p2); PCAScorePredictor(b.mx, b.pca, 5, p1); PCAScorePredictor(b.mx, r, 5, p2); cmp(p1, p2, "PCAScorePredictor"); DelMatrix(&p1); DelMatrix(&p2); DelPCAModel(&r); }
  else if (b.kind == 1) { PLSMODEL *r; NewPLSModel(&r); ReadPLS((char *)path, r); matrix *p1, *p2; initMatrix(&p1); initMatrix(&p2); PLSYPredictorAllLV(b.mx, b.pls, NULL, p1); PLSYPredictorAllLV(b.mx, r, NULL, p2); cmp(p1, p2, "PLSYPredictorAllLV"); DelMatrix(&p1); DelMatrix(&p2); DelPLSModel(&r); }
  else { CPCAMODEL *r; NewCPCAModel(&r); ReadCPCA((char *)path, r); matrix *p1, *p2; initMatrix(&p1); initMatrix(&p2); tensor *t1, *t2; initTensor(&t1); initTensor(&t2); CPCAScorePredictor(b.tx, b.cpca, 5, p1, t1); CPCAScorePredictor(b.tx, r, 5, p2, t2); cmp(p1, p2, "CPCAScorePredictor"); DelMatrix(&p1); DelMatrix(&p2); DelTensor(&t1); DelTensor(&t2); DelCPCAModel(&r); }
}

static void gen_history(Draw &d, Case &c) {
  int nmodels = (int)d.i(1, 3), npaths = (int)d.i(1, 2), nsteps = (int)d.i(1, 5);
  c.p = {nmodels, npaths, nsteps};
  std::vector<int64_t> steps; int writes_seen[2] = {0, 0}; bool multi = false;
  for (int k = 0; k < nsteps; k++) { int op = (k == 0 || d.coin(60)) ? 0 : 1, path = (int)d.i(0, npaths - 1), model = (int)d.i(0, nmodels - 1); if (op == 0) writes_seen[path]++; steps.insert(steps.end(), {op, path, model}); }
  // the history ends with a read of a path that has been written
  int lastpath = writes_seen[0] ? 0 : 1; if (npaths == 2 && writes_seen[1] > writes_seen[0]) lastpath = 1;
  steps.insert(steps.end(), {1, lastpath, 0}); multi = writes_seen[lastpath] >= 2;
  c.p[2] = nsteps + 1; c.p.insert(c.p.end(), steps.begin(), steps.end());
  for (int m = 0; m < nmodels; m++) { Case sub; gen_model(d, sub); c.p.insert(c.p.end(), sub.p.begin(), sub.p.end()); c.v.insert(c.v.end(), sub.v.begin(), sub.v.end()); for (auto &t : sub.tags) c.tags.push_back(t); }
  c.nontrivial = multi && nmodels >= 2;
  if (multi) c.tags.push_back(">=2-writes-to-the-read-path");
}
static void pred_history(const Case &c) {
  Reader rd(c);
  int nmodels = (int)rd.i(), npaths = (int)rd.i(), nsteps = (int)rd.i();
  std::vector<std::array<int, 3>> steps((size_t)nsteps); for (auto &s : steps) { s[0] = (int)rd.i(); s[1] = (int)rd.i(); s[2] = (int)rd.i(); }
  std::vector<Built> models; for (int m = 0; m < nmodels; m++) models.push_back(build(read_spec(rd)));
  std::string dir = verif_dir_for_tmp(); std::string paths[2] = {dir + "/a.sqlite3", dir + "/b.sqlite3"};
  for (auto &p : paths) unlink(p.c_str());
  int last[2] = {-1, -1}; bool differing = false;
  for (auto &s : steps) {
    int op = s[0], path = s[1] % npaths, mi = s[2] % nmodels; Built &b = models[(size_t)mi];
    if (op == 0) {
      if (last[path] >= 0 && last[path] != mi) differing = true;
      if (b.kind == 0) WritePCA((char *)paths[path].c_str(), b.pca); else if (b.kind == 1) WritePLS((char *)paths[path].c_str(), b.pls); else WriteCPCA((char *)paths[path].c_str(), b.cpca);
      Flat now = b.kind == 0 ? flat_pca(b.pca) : b.kind == 1 ? flat_pls(b.pls) : flat_cpca(b.cpca);
      same_bits(b.flat, now, "writing modified the in-memory model");
      last[path] = mi;
    } else {
      if (last[path] < 0) continue;
      Built &w = models[(size_t)last[path]]; Flat got;
      if (w.kind == 0) { PCAMODEL *r; NewPCAModel(&r); ReadPCA((char *)paths[path].c_str(), r); got = flat_pca(r); DelPCAModel(&r); }
      else if (w.kind == 1) { PLSMODEL *r; NewPLSModel(&r); ReadPLS((char *)paths[path].c_str(), r); got = flat_pls(r); DelPLSModel(&r); }
      else { CPCAMODEL *r; NewCPCAModel(&r); ReadCPCA((char *)paths[path].c_str(), r); got = flat_cpca(r); DelCPCAModel(&r); }
      same_model(w.flat, got, w.kind == 0 ? "ReadPCA" : w.kind == 1 ? "ReadPLS" : "ReadCPCA");
      check_predictions(w, paths[path].c_str());
    }
  }
  if (differing) { nontrivial(); tag("overwrite-with-a-different-model"); }
  for (auto &p : paths) unlink(p.c_str());
  rmdir(dir.c_str());
}

Property &vf::property() {
  static Property p{
      "C16",
      "histories of 1..5 Write*/Read* steps (always ending with a read of a written path) over 1..2 files and 1..3 models of kinds PCA / PLS / "
      "CPCA with 4..8 objects, 2..4 variables, 1..2 components, fitted by the library on generated data of magnitude 1e-9..1e9, including "
      "empty optional fields (scaling -1: empty averages; fresh PLS model: empty validation matrices). Oracle: path -> model last written; "
      "every persisted field with the same dimensions and values within 1e-15*max(1,|v|), predictions from the read model equal those of "
      "the saved one, the in-memory model bit-identical after Write*. Non-trivial: a read preceded by >= 2 writes of different models to "
      "the same path.",
      {
          {"history", gen_history, pred_history, 400, 2000, 100},
      }};
  return p;
}
