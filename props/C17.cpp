// C17 — object selection and k-means return valid, optimal-by-construction results.
#include "common.hpp"
using namespace vf;
using namespace orc;

// objects in general position: distinct dyadic coordinates (k/64), so pairwise distances are generically distinct
static M gen_points(Draw &d, int n, int p) {
  M A(n, p);
  auto raw = d.ivec((size_t)n * p, -20000, 20000);
  for (int j = 0; j < p; j++) {
    std::set<int64_t> used;
    for (int i = 0; i < n; i++) { int64_t v = raw[(size_t)i * p + j]; while (used.count(v)) v++; used.insert(v); A(i, j) = (double)v / 64.0; }
  }
  return A;
}
static ld mdist(int metric, const M &A, int i, const M &B, int k) {
  ld s = 0, n = 0, da = 0, db = 0;
  for (int j = 0; j < A.c; j++) { ld d = A(i, j) - B(k, j); s += metric == 1 ? fabsl(d) : d * d; n += A(i, j) * B(k, j); da += A(i, j) * A(i, j); db += B(k, j) * B(k, j); }
  return metric == 0 ? sqrtl(s) : metric == 1 ? s : n / (sqrtl(da) * sqrtl(db));
}
static void check_selection(const char *who, const uivector *s, int n, int want) {
  VF_CHECK((int)s->size == want, "%s returned %zu indices, %d requested", who, s->size, want);
  std::set<size_t> seen;
  for (size_t k = 0; k < s->size; k++) { VF_CHECK(s->data[k] < (size_t)n, "%s: index %zu out of range (n=%d)", who, s->data[k], n); VF_CHECK(seen.insert(s->data[k]).second, "%s: index %zu selected twice", who, s->data[k]); }
}

// ------------------------------------------------------------------------------------------------
static void gen_select(Draw &d, Case &c) {
  int n = (int)d.sz(3, 80), p = (int)d.sz(1, 6);
  int nsel = d.coin(20) ? n : (int)d.i(1, n);
  int metric = (int)d.i(0, 2), th = (int)d.i(1, 8), seed = (int)d.i(1, 100000);
  c.p = {n, p, nsel, metric, th, seed};
  put(c, gen_points(d, n, p));
  c.nontrivial = nsel >= 3;
  c.tags.push_back(fmt("metric=%d", metric)); c.tags.push_back(fmt("threads=%d", th)); if (nsel == n) c.tags.push_back("select-all");
}
static void pred_select(const Case &c) {
  Reader rd(c);
  int n = (int)rd.i(), p = (int)rd.i(), nsel = (int)rd.i(), metric = (int)rd.i(), th = (int)rd.i(), seed = (int)rd.i();
  M A = rd.mat(n, p);
  matrix *m = to_lib(A);
  uivector *s1, *s2, *s3, *s4; initUIVector(&s1); initUIVector(&s2); initUIVector(&s3); initUIVector(&s4);
  MaxDis(m, (size_t)nsel, metric, s1, (size_t)th);
  MaxDis_Fast(m, (size_t)nsel, metric, s2, (size_t)th);
  check_selection("MaxDis", s1, n, nsel); check_selection("MaxDis_Fast", s2, n, nsel);
  for (int k = 0; k < nsel; k++) VF_CHECK(s1->data[k] == s2->data[k], "MaxDis and MaxDis_Fast differ at position %d: %zu vs %zu (metric %d, n=%d)", k, s1->data[k], s2->data[k], metric, n);
  // first element: farthest (Euclidean) from the centroid
  {
    M C(1, p); for (int j = 0; j < p; j++) { ld s = 0; for (int i = 0; i < n; i++) s += A(i, j); C(0, j) = s / n; }
    ld best = -1; for (int i = 0; i < n; i++) best = std::max(best, mdist(0, A, i, C, 0));
    ld got = mdist(0, A, (int)s1->data[0], C, 0);
    VF_CHECK(got >= best * (1 - 1e-12L), "first selected object %zu is %.15Lg from the centroid, the farthest one is %.15Lg away", s1->data[0], got, best);
  }
  // every further element maximises the minimum of the metric function to those already chosen
  std::vector<char> chosen(n, 0); chosen[s1->data[0]] = 1;
  for (int k = 1; k < nsel; k++) {
    ld best = -1e300L; std::vector<ld> mind(n, 0);
    for (int i = 0; i < n; i++) if (!chosen[i]) { ld mn = 1e300L; for (int q = 0; q < k; q++) mn = std::min(mn, mdist(metric, A, i, A, (int)s1->data[q])); mind[i] = mn; best = std::max(best, mn); }
    size_t pick = s1->data[k];
    ld slack = 1e-12L * (metric == 2 ? 1 : fabsl(best) + 1e-300L);
    VF_CHECK(mind[pick] >= best - slack, "selection step %d picked object %zu with min-distance %.15Lg, but %.15Lg is attainable (metric %d)", k, pick, mind[pick], best, metric);
    chosen[pick] = 1;
  }
  MDC(m, (size_t)nsel, metric, s3, (size_t)th);
  check_selection("MDC", s3, n, nsel);
  { uivector *s3b; initUIVector(&s3b); MDC(m, (size_t)nsel, metric, s3b, 1); for (int k = 0; k < nsel; k++) VF_CHECK(s3->data[k] == s3b->data[k], "MDC differs between %d threads and 1 thread at position %d", th, k); DelUIVector(&s3b); }
  srand_((uint32_t)seed);
  KMeansppCenters(m, (size_t)nsel, s4, th);
  check_selection("KMeansppCenters", s4, n, nsel);
  { uivector *s4b; initUIVector(&s4b); srand_((uint32_t)seed); KMeansppCenters(m, (size_t)nsel, s4b, 1); for (int k = 0; k < nsel; k++) VF_CHECK(s4->data[k] == s4b->data[k], "KMeansppCenters (same seed) differs between %d threads and 1 thread at position %d", th, k); DelUIVector(&s4b); }
  DelUIVector(&s1); DelUIVector(&s2); DelUIVector(&s3); DelUIVector(&s4); DelMatrix(&m);
}

// ------------------------------------------------------------------------------------------------
static void gen_kmeans(Draw &d, Case &c) {
  int n = (int)d.sz(3, 80), p = (int)d.sz(1, 6);
  int k = (int)d.i(1, std::min(6, n)), init = (int)d.i(0, 3), th = (int)d.i(1, 8), seed = (int)d.i(1, 100000);
  c.p = {n, p, k, init, th, seed};
  M A = gen_points(d, n, p);
  // clustered structure in half of the cases
  if (d.coin(50)) { int g = (int)d.i(2, 4); auto off = d.ivec((size_t)g * p, -3000, 3000); for (int i = 0; i < n; i++) for (int j = 0; j < p; j++) A(i, j) = (double)(A(i, j) / 16 + (ld)off[(size_t)(i % g) * p + j]); }
  // one object AT the origin in a sixth of the cases (translation keeps general position): start centroids can then coincide with
  // the zero-initialised "previous centroids" of the first convergence test
  if (d.coin(16)) { int o = (int)d.i(0, n - 1); V row(p); for (int j = 0; j < p; j++) row[j] = A(o, j); for (int i = 0; i < n; i++) for (int j = 0; j < p; j++) A(i, j) = (double)(A(i, j) - row[j]); c.tags.push_back("object-at-origin"); }
  put(c, A);
  c.nontrivial = k >= 3 && th >= 2;
  c.tags.push_back(fmt("initializer=%d", init)); c.tags.push_back(fmt("k=%d", k)); c.tags.push_back(fmt("threads=%d", th));
}
static void pred_kmeans(const Case &c) {
  Reader rd(c);
  int n = (int)rd.i(), p = (int)rd.i(), k = (int)rd.i(), init = (int)rd.i(), th = (int)rd.i(), seed = (int)rd.i();
  M A = rd.mat(n, p);
  matrix *m = to_lib(A);
  uivector *lab, *lab1; initUIVector(&lab); initUIVector(&lab1);
  matrix *cen, *cen1; initMatrix(&cen); initMatrix(&cen1);
  srand_((uint32_t)seed); KMeans(m, (size_t)k, init, lab, cen, (size_t)th);
  srand_((uint32_t)seed); KMeans(m, (size_t)k, init, lab1, cen1, 1);
  VF_CHECK((int)lab->size == n && (int)cen->row == k && (int)cen->col == p, "KMeans: %zu labels, centroids %s (n=%d k=%d p=%d)", lab->size, dims(cen).c_str(), n, k, p);
  M C = from_lib(cen);
  std::vector<int> cnt(k, 0); M S(k, p);
  for (int i = 0; i < n; i++) { VF_CHECK(lab->data[i] < (size_t)k, "label %zu of object %d out of range (k=%d)", lab->data[i], i, k); cnt[lab->data[i]]++; for (int j = 0; j < p; j++) S((int)lab->data[i], j) += A(i, j); }
  ld amax = maxabs(A);
  for (int q = 0; q < k; q++) {
    if (cnt[q] > 0) { for (int j = 0; j < p; j++) VF_CLOSE(C(q, j), S(q, j) / cnt[q], 64 * (cnt[q] + 1) * EPS * amax + 1e-300L, fmt("centroid %d coordinate %d vs mean of its %d members", q, j, cnt[q]).c_str()); }
    else { bool isrow = false; for (int i = 0; i < n && !isrow; i++) { bool eq = true; for (int j = 0; j < p; j++) if ((double)C(q, j) != (double)A(i, j)) eq = false; isrow = eq; } VF_CHECK(isrow, "empty cluster %d: centroid is not a data row", q); tag("empty-cluster"); }
  }
  // nearest centroid up to the documented convergence tolerance (1e-3 per coordinate)
  for (int i = 0; i < n; i++) { ld own = mdist(0, A, i, C, (int)lab->data[i]), best = own; for (int q = 0; q < k; q++) best = std::min(best, mdist(0, A, i, C, q));
    VF_CHECK(own <= best + 2 * sqrtl((ld)p) * 1e-3L + 1e-9L, "object %d carries label %zu at distance %.12Lg but a centroid at %.12Lg exists", i, lab->data[i], own, best); }
  // thread-count independence
  for (int i = 0; i < n; i++) VF_CHECK(lab->data[i] == lab1->data[i], "label of object %d differs between %d threads (%zu) and 1 thread (%zu), initializer %d", i, th, lab->data[i], lab1->data[i], init);
  for (int q = 0; q < k; q++) for (int j = 0; j < p; j++) VF_CHECK(cen->data[q][j] == cen1->data[q][j], "centroid (%d,%d) differs between %d threads and 1 thread", q, j, th);
  DelUIVector(&lab); DelUIVector(&lab1); DelMatrix(&cen); DelMatrix(&cen1); DelMatrix(&m);
}

Property &vf::property() {
  static Property p{
      "C17",
      "3..80 objects x 1..6 variables with distinct dyadic coordinates (general position; half of the k-means cases with cluster structure), "
      "selection sizes 1..n (n itself in 20 %), metrics 0..2, clusters 1..6, initialisers 0..3 with srand_(seed) before the random ones, "
      "threads 1..8. Oracle: validity predicates (distinct, in range, count), max-min optimality recomputed with the textbook metric in "
      "long double, MaxDis == MaxDis_Fast, centroid = mean of members, nearest-centroid within the documented 1e-3 tolerance, equality "
      "with the 1-thread run. Non-trivial: selection size >= 3, or k >= 3 with threads >= 2.",
      {
          {"selection", gen_select, pred_select, 600, 4000, 100},
          {"kmeans", gen_kmeans, pred_kmeans, 800, 5000, 100},
      }};
  return p;
}
