// C07 — MLR is ordinary least squares with intercept.
#include "modelgen.hpp"
using namespace vf;
using namespace orc;

static M augment(const M &X) { M A(X.r, X.c + 1); for (int i = 0; i < X.r; i++) { A(i, 0) = 1; for (int j = 0; j < X.c; j++) A(i, j + 1) = X(i, j); } return A; }

static void gen_c07(Draw &d, Case &c) {
  int p = (int)d.sz(1, 10);
  int n = std::min(50, std::max(4, p + 2 + (int)d.sz(0, 38)));
  int ny = (int)d.i(1, 4);
  // X = U diag(s) V^T * scale + offsets, offsets at most 10x the spread so that [1 X] stays well conditioned
  V s = gen_log_spectrum(d, p, d.real(0, 2.5));
  double mag = d.real(-2, 3);
  M X = gen_lowrank(d, n, p, s, mag, false);
  for (int j = 0; j < p; j++) { double off = d.coin(30) ? 0.0 : d.real(-10, 10) * std::pow(10.0, mag); for (int i = 0; i < n; i++) X(i, j) = (double)(X(i, j) + off); }
  M B(p + 1, ny); { auto bi = d.ivec((size_t)(p + 1) * ny, -100, 100); for (size_t i = 0; i < B.a.size(); i++) B.a[i] = (ld)bi[i] / 10; }
  double noise = d.pick<double>({0.0, 0.0, 0.01, 0.3, 3.0});
  M Y = mul(augment(X), B);
  ld sig = 0; for (ld v : Y.a) sig += v * v; sig = sqrtl(sig / std::max<size_t>(1, Y.a.size())); if (sig == 0) sig = 1;
  auto g = d.ivec((size_t)n * ny, -1000, 1000);
  for (int i = 0; i < n; i++) for (int j = 0; j < ny; j++) Y(i, j) += noise * sig * (ld)g[(size_t)i * ny + j] / 500;
  for (int j = 0; j < ny; j++) { double sc = d.pick<double>({1.0, 1.0, 1e4, 1e-4, 1e2}); bool cst = true; for (int i = 0; i < n; i++) { Y(i, j) = (double)(Y(i, j) * sc); if (Y(i, j) != Y(0, j)) cst = false; } if (cst) for (int i = 0; i < n; i++) Y(i, j) += (i % 2) ? 1 : -1; }
  for (auto &x : Y.a) x = (double)x;
  // "arbitrary offsets": a third of the responses sit on a level of 1e2..1e6.5 times their own spread (a one-pass / expanded
  // sum of squares loses (level/spread)^2 * eps there, the two-pass definition does not)
  bool bigoff = false;
  for (int j = 0; j < ny; j++) if (d.coin(33)) {
    ld mu = 0, ss = 0; for (int i = 0; i < n; i++) mu += Y(i, j); mu /= n; for (int i = 0; i < n; i++) ss += (Y(i, j) - mu) * (Y(i, j) - mu);
    double sd = (double)sqrtl(ss / n), off = (d.coin(50) ? 1 : -1) * sd * std::pow(10.0, d.real(2, 6.5));
    for (int i = 0; i < n; i++) Y(i, j) = (double)(Y(i, j) + off);
    bigoff = true;
  }
  int nnew = (int)d.i(1, 5), nnew2 = (int)d.i(1, 9);
  M N(nnew, p), N2(nnew2, p);
  for (int i = 0; i < nnew; i++) for (int j = 0; j < p; j++) N(i, j) = (double)(X((int)d.i(0, n - 1), j) * (1 + d.dyadic(200, 8)));
  for (int i = 0; i < nnew2; i++) for (int j = 0; j < p; j++) N2(i, j) = (double)(X((int)d.i(0, n - 1), j) * (1 + d.dyadic(200, 8)));
  // response map and predictor re-mixing
  double cc = (d.coin(50) ? 1 : -1) * d.real(0.1, 50), dd = d.real(-100, 100);
  M Q1 = gen_orthonormal(d, p, p), Q2 = gen_orthonormal(d, p, p); M Mx(p, p);
  for (int i = 0; i < p; i++) for (int j = 0; j < p; j++) { ld x = 0; for (int k = 0; k < p; k++) x += Q1(i, k) * (1 + 9.0L * k / std::max(1, p - 1)) / 3 * Q2(j, k); Mx(i, j) = (double)x; }
  c.p = {n, p, ny, nnew, nnew2};
  put(c, X); put(c, Y); put(c, N); put(c, N2); c.v.push_back(cc); c.v.push_back(dd); put(c, Mx);
  c.nontrivial = p >= 2 && noise > 0 && ny >= 2;
  c.tags.push_back(fmt("ny=%d", ny)); c.tags.push_back(fmt("noise=%g", noise)); c.tags.push_back(fmt("p=%d", p));
  if (bigoff) c.tags.push_back("response-level>=1e2*spread");
}

static MLRMODEL *fitmlr(const M &X, const M &Y) {
  matrix *mx = to_lib(X), *my = to_lib(Y); MLRMODEL *m; NewMLRModel(&m);
  MLR(mx, my, m, NULL);
  DelMatrix(&mx); DelMatrix(&my);
  return m;
}

static void pred_c07(const Case &c) {
  Reader rd(c);
  int n = (int)rd.i(), p = (int)rd.i(), ny = (int)rd.i(), nnew = (int)rd.i(), nnew2 = (int)rd.i();
  M X = rd.mat(n, p), Y = rd.mat(n, ny), N = rd.mat(nnew, p), N2 = rd.mat(nnew2, p);
  double cc = rd.d(), dd = rd.d(); M Mx = rd.mat(p, p);
  M A = augment(X);
  V sv = singular_values(A); ld smax = sv.front(), smin = sv.back();
  VF_CHECK(smin > 0, "generator: [1 X] rank deficient");
  ld kappa = smax / smin;
  tag(kappa < 1e2L ? "kappa<1e2" : kappa < 1e4L ? "kappa<1e4" : "kappa>=1e4");
  M Bref; VF_CHECK(lstsq(A, Y, Bref), "oracle lstsq failed");
  MLRMODEL *m = fitmlr(X, Y);
  VF_CHECK((int)m->b->row == p + 1 && (int)m->b->col == ny, "MLR: coefficient matrix %s, expected %dx%d", dims(m->b).c_str(), p + 1, ny);
  VF_CHECK((int)m->recalculated_y->row == n && (int)m->recalculated_y->col == ny && (int)m->recalc_residuals->row == n && (int)m->recalc_residuals->col == ny &&
           (int)m->r2y_model->size == ny && (int)m->sdec->size == ny && (int)m->ymean->size == ny, "MLR: model field shapes");
  M B = from_lib(m->b);
  VF_CHECK(all_finite(B), "MLR: non-finite coefficients (n=%d p=%d kappa=%.3Lg)", n, p, kappa);
  std::vector<ld> tolb(ny);
  for (int k = 0; k < ny; k++) {
    ld nb = 0, ne = 0, nyk = 0; for (int j = 0; j <= p; j++) { nb += Bref(j, k) * Bref(j, k); ld e = B(j, k) - Bref(j, k); ne += e * e; }
    for (int i = 0; i < n; i++) nyk += Y(i, k) * Y(i, k);
    nb = sqrtl(nb); ne = sqrtl(ne); nyk = sqrtl(nyk);
    tolb[k] = 1e3L * (n + p) * EPS * kappa * kappa * (nb + nyk / smax) + 1e-300L;
    VF_CHECK(ne <= tolb[k], "MLR coefficients of response %d differ from the least-squares solution by %.3Lg > tol %.3Lg (n=%d p=%d kappa=%.3Lg; intercept got %.15Lg expected %.15Lg)", k, ne, tolb[k], n, p, kappa, B(0, k), Bref(0, k));
  }
  // residuals: recalculated - observed; sum to zero; orthogonal to every predictor
  for (int k = 0; k < ny; k++) {
    ld rss = 0, tss = 0, mu = 0, sumr = 0; for (int i = 0; i < n; i++) mu += Y(i, k); mu /= n;
    V r(n);
    for (int i = 0; i < n; i++) {
      ld s = B(0, k), sa = fabsl(B(0, k)); for (int j = 0; j < p; j++) { ld t = X(i, j) * B(j + 1, k); s += t; sa += fabsl(t); }
      VF_CLOSE(m->recalculated_y->data[i][k], s, tol_T1(p + 1, sa), "recalculated_y = intercept + X b");
      ld res = (ld)m->recalculated_y->data[i][k] - Y(i, k);
      VF_CLOSE(m->recalc_residuals->data[i][k], res, 4 * EPS * (fabsl(s) + fabsl(Y(i, k))) + 1e-300L, "recalc_residuals = recalculated - observed");
      // RSS / R2 / SDEC are defined on the stored predictions (verified against intercept + X b just above)
      r[i] = Y(i, k) - s; ld rl = Y(i, k) - (ld)m->recalculated_y->data[i][k]; rss += rl * rl; tss += (Y(i, k) - mu) * (Y(i, k) - mu); sumr += r[i];
    }
    ld rt = smax * tolb[k];
    VF_CHECK(fabsl(sumr) <= sqrtl((ld)n) * rt * 2 + 1e-300L, "training residuals of response %d sum to %.3Lg (tol %.3Lg)", k, sumr, sqrtl((ld)n) * rt * 2);
    for (int j = 0; j < p; j++) { ld s = 0, nx = 0; for (int i = 0; i < n; i++) { s += X(i, j) * r[i]; nx += X(i, j) * X(i, j); } VF_CHECK(fabsl(s) <= sqrtl(nx) * rt * 2 + 1e-300L, "residuals of response %d not orthogonal to predictor %d: %.3Lg (tol %.3Lg)", k, j, s, sqrtl(nx) * rt * 2); }
    ld r2ref = 1 - rss / tss;
    // a two-pass TSS carries the rounding of each y_i - mean: eps*|y| per term, i.e. eps*(level/spread) relative
    ld ymax = 0; for (int i = 0; i < n; i++) ymax = std::max(ymax, fabsl(Y(i, k)));
    ld lvl = tss > 0 ? ymax / sqrtl(tss / n) : 0;
    VF_CLOSE(m->r2y_model->data[k], r2ref, 1e-9L + 64 * n * EPS * (1 + (1 + lvl) * rss / tss), "r2y_model = 1 - RSS/TSS");
    VF_CHECK(m->r2y_model->data[k] >= -1e-9 && m->r2y_model->data[k] <= 1 + 1e-9, "training R2 outside [0,1]: %.17g", m->r2y_model->data[k]);
    VF_CLOSE(m->sdec->data[k], sqrtl(rss / n), 64 * n * EPS * sqrtl(rss / n) + 1e-300L, "sdec = sqrt(RSS/n)");
    VF_CLOSE(m->ymean->data[k], mu, 64 * n * EPS * (fabsl(mu) + sqrtl(tss / n)) + 1e-300L, "ymean");
  }
  // MLRRegressionStatistics = R2 / RMSE / BIAS of the scalar functions
  {
    matrix *my = to_lib(Y); dvector *cf, *rm, *bi; initDVector(&cf); initDVector(&rm); initDVector(&bi);
    MLRRegressionStatistics(my, m->recalculated_y, cf, rm, bi);
    VF_CHECK((int)cf->size == ny && (int)rm->size == ny && (int)bi->size == ny, "MLRRegressionStatistics sizes");
    for (int k = 0; k < ny; k++) {
      VF_CLOSE(cf->data[k], m->r2y_model->data[k], 1e-9L, "MLRRegressionStatistics R2 vs r2y_model");
      VF_CLOSE(rm->data[k], m->sdec->data[k], 1e-9L * (1 + fabsl((ld)m->sdec->data[k])), "MLRRegressionStatistics RMSE vs sdec");
      VF_CHECK(std::isfinite(bi->data[k]) && bi->data[k] >= 0, "MLRRegressionStatistics BIAS %g", bi->data[k]);
    }
    DelMatrix(&my); DelDVector(&cf); DelDVector(&rm); DelDVector(&bi);
  }
  // prediction of unseen rows, first into a fresh output, then re-using that output for a different number of rows
  {
    matrix *out; initMatrix(&out);
    for (int round = 0; round < 2; round++) {
      const M &Z = round == 0 ? N : N2;
      matrix *z = to_lib(Z);
      MLRPredictY(z, NULL, m, out, NULL, NULL, NULL);
      VF_CHECK((int)out->row == Z.r && (int)out->col == ny, "MLRPredictY %s output: %s, expected %dx%d", round ? "re-used" : "fresh", dims(out).c_str(), Z.r, ny);
      for (int i = 0; i < Z.r; i++) for (int k = 0; k < ny; k++) {
        ld s = B(0, k), sa = fabsl(B(0, k)); for (int j = 0; j < p; j++) { ld t = Z(i, j) * B(j + 1, k); s += t; sa += fabsl(t); }
        VF_CLOSE(out->data[i][k], s, tol_T1(p + 1, sa), "MLRPredictY = intercept + X b on unseen rows");
      }
      DelMatrix(&z);
      if (Z.r == N2.r && round == 0) break;
    }
    DelMatrix(&out);
  }
  // equivariance: y -> c*y + d
  {
    M Y2 = Y; for (auto &v : Y2.a) v = (double)(cc * v + dd);
    MLRMODEL *g = fitmlr(X, Y2); M B2 = from_lib(g->b);
    for (int k = 0; k < ny; k++) for (int j = 0; j <= p; j++) {
      ld ref = cc * B(j, k) + (j == 0 ? dd : 0);
      ld nyk = 0; for (int i = 0; i < n; i++) nyk += Y2(i, k) * Y2(i, k);
      ld tol = fabsl(cc) * tolb[k] * 2 + 1e3L * (n + p) * EPS * kappa * kappa * (sqrtl(nyk) / smax + fabsl(dd)) + 1e-300L;
      VF_CHECK(fabsl(B2(j, k) - ref) <= tol, "y -> c*y+d: coefficient (%d,%d) became %.15Lg, expected %.15Lg (tol %.3Lg)", j, k, B2(j, k), ref, tol);
    }
    DelMLRModel(&g);
  }
  // equivariance: X -> X*M leaves the predictions unchanged
  {
    M XM = mul(X, Mx); for (auto &v : XM.a) v = (double)v;
    M A2 = augment(XM); V sv2 = singular_values(A2); ld k2 = sv2.front() / sv2.back();
    MLRMODEL *g = fitmlr(XM, Y);
    for (int k = 0; k < ny; k++) { ld nyk = 0; for (int i = 0; i < n; i++) nyk += Y(i, k) * Y(i, k); nyk = sqrtl(nyk);
      for (int i = 0; i < n; i++) {
        ld tol = 1e3L * (n + p) * EPS * (kappa * kappa + k2 * k2) * nyk + 1e-300L;
        VF_CHECK(fabsl((ld)g->recalculated_y->data[i][k] - m->recalculated_y->data[i][k]) <= tol, "re-mixing the predictors changed the fitted value (%d,%d): %.15g vs %.15g (tol %.3Lg)", i, k, g->recalculated_y->data[i][k], m->recalculated_y->data[i][k], tol);
      } }
    DelMLRModel(&g);
  }
  DelMLRModel(&m);
}

Property &vf::property() {
  static Property p{
      "C07",
      "X n x p (n in [4,50], p in [1,10], n >= p+2) = U diag(s) V^T * 10^[-2,3] + offsets (<= 10x the spread), Y with 1..4 responses = "
      "[1 X] B + noise (0 .. 300 %), response scales 1e+-4; unseen rows; maps y -> c*y+d and X -> X*M (kappa(M) <= 10). Oracle: Householder "
      "least squares on [1 X] in long double, definitions of RSS/TSS/R2/SDEC. Tolerance T2 with kappa([1 X])^2 measured by the oracle SVD. "
      "Non-trivial: p >= 2 and noise > 0 and ny >= 2.",
      {
          {"ols", gen_c07, pred_c07, 2400, 10000, 100},
      }};
  return p;
}
