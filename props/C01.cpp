// C01 — PCA is an exact orthogonal decomposition that accounts for all the variance.
#include "modelgen.hpp"
using namespace vf;
using namespace orc;

static const ld PCACONV = 1e-10L;   // documented stopping threshold (pca.h)

static void gen_c01(Draw &d, Case &c) {
  int shape = (int)d.i(0, 2);     // 0 tall, 1 square, 2 wide
  int n, p;
  if (shape == 0) { p = (int)d.sz(1, 25); n = std::min(60, p + (int)d.sz(1, 35)); n = std::max(n, 2); }
  else if (shape == 1) { n = p = (int)d.sz(2, 25); }
  else { n = (int)d.sz(2, 24); p = std::min(25, n + (int)d.sz(1, 20)); }
  int scaling = (int)d.i(-1, 5);
  int rmax = std::min(n, p);
  int r = d.coin(60) ? rmax : (int)d.i(1, rmax);
  V s = gen_log_spectrum(d, r, 3.0);
  double mag = d.real(-1.5, 4);
  M X = gen_lowrank(d, n, p, s, mag, true);
  int nconst = (p >= 2 && d.coin(30)) ? (int)d.i(1, std::min(2, p - 1)) : 0;
  for (int t = 0; t < nconst; t++) make_constant_column(X, (int)d.i(1, p - 1), d.coin(50) ? 0.0 : (double)d.i(-50, 50));
  enforce_scale_domain(X, scaling);
  Prep P = ref_preprocess(X, scaling);
  V sv = singular_values(P.X);
  int rank = numerical_rank(sv, 1e-9L);
  if (rank < 1) rank = 1;
  int npc = d.coin(35) ? rank : (int)d.i(1, rank);
  int npA = d.pick<int>({2, 3, 4}), npB = d.pick<int>({2, 3, 5, 8, n + 3});
  c.p = {n, p, scaling, npc, npA, npB, rank};
  put(c, X);
  c.nontrivial = npc >= 2 && scaling != 0;
  c.tags.push_back(shape == 0 ? "tall" : shape == 1 ? "square" : "wide");
  c.tags.push_back(fmt("scaling=%d", scaling));
  if (npc == rank) c.tags.push_back("npc=rank");
  if (nconst) c.tags.push_back("constant-columns");
  if (r < rmax) c.tags.push_back("rank-deficient-data");
  if (npB > n) c.tags.push_back("nproc>rows");
}

struct Fit { M T, P; V varexp, avg, scl; };
static Fit fit(const M &X, int scaling, int npc, int nproc) {
  libsci_verif_nproc = (size_t)nproc;
  matrix *mx = to_lib(X);
  PCAMODEL *m; NewPCAModel(&m);
  PCA(mx, scaling, (size_t)npc, m, NULL);
  Fit f; f.T = from_lib(m->scores); f.P = from_lib(m->loadings); f.varexp = from_lib(m->varexp);
  f.avg = from_lib(m->colaverage); f.scl = from_lib(m->colscaling);
  DelPCAModel(&m); DelMatrix(&mx);
  return f;
}

static void pred_c01(const Case &c) {
  Reader rd(c);
  int n = (int)rd.i(), p = (int)rd.i(), scaling = (int)rd.i(), npc = (int)rd.i(), npA = (int)rd.i(), npB = (int)rd.i(), rank = (int)rd.i();
  M X = rd.mat(n, p);
  Prep Pr = ref_preprocess(X, scaling);
  const M &E0 = Pr.X;
  V dE = prep_col_bound(X, Pr, scaling);
  V sv = singular_values(E0);
  VF_CHECK(numerical_rank(sv, 1e-9L) >= npc || rank == 1, "replay file: npc exceeds the rank of the preprocessed matrix");
  ld s1 = sv[0], sk = sv[std::min<int>(npc, (int)sv.size()) - 1];
  ld cond = sk > 0 ? s1 / sk : 1e300L;
  ld nE = fro(E0);
  ld t3 = sqrtl((ld)n * PCACONV);

  libsci_verif_nproc = 1;   // identities are checked on the single-processor fit; other counts are compared with it below
  matrix *mx = to_lib(X);
  PCAMODEL *m; NewPCAModel(&m);
  PCA(mx, scaling, (size_t)npc, m, NULL);
  long its = ticks(0);
  tag(its < 100 ? "iterations<100" : its < 1000 ? "iterations<1e3" : its < 10000 ? "iterations<1e4" : its < 100000 ? "iterations<1e5" : "iterations>=1e5");
  VF_CHECK((int)m->scores->row == n && (int)m->scores->col == npc && (int)m->loadings->row == p && (int)m->loadings->col == npc && (int)m->varexp->size == npc,
           "PCA: model shapes scores %s loadings %s varexp %zu for n=%d p=%d npc=%d", dims(m->scores).c_str(), dims(m->loadings).c_str(), m->varexp->size, n, p, npc);
  M T = from_lib(m->scores), P = from_lib(m->loadings); V ve = from_lib(m->varexp);
  VF_CHECK(all_finite(T) && all_finite(P), "PCA: non-finite scores/loadings (n=%d p=%d scaling=%d npc=%d rank=%d)", n, p, scaling, npc, rank);
  for (int i = 0; i < n; i++) for (int j = 0; j < p; j++) VF_CHECK(mx->data[i][j] == (double)X(i, j), "PCA modified its input");

  // (1) orthonormal loadings
  ld orth_tol = 64 * (n + p) * EPS * cond + 1e-13L;
  for (int a = 0; a < npc; a++) for (int b = 0; b <= a; b++) {
    ld s = 0; for (int j = 0; j < p; j++) s += P(j, a) * P(j, b);
    if (a == b) VF_CHECK(fabsl(s - 1) <= 64 * p * EPS + 1e-14L, "loading %d is not unit length: |p|^2 = %.17Lg", a, s);
    else VF_CHECK(fabsl(s) <= orth_tol, "loadings %d and %d not orthogonal: p'p = %.3Lg > %.3Lg (cond %.3Lg)", a, b, s, orth_tol, cond);
  }
  // (2) scores are the successive projections; harness deflates its own long-double copy
  M E = E0;
  M absacc(n, p); for (int i = 0; i < n; i++) for (int j = 0; j < p; j++) absacc(i, j) = fabsl(E0(i, j));
  std::vector<V> ttol(npc, V(n, 0));
  for (int k = 0; k < npc; k++) {
    for (int i = 0; i < n; i++) {
      ld s = 0, tol = 0;
      for (int j = 0; j < p; j++) {
        s += E(i, j) * P(j, k);
        tol += (dE[j] + 64 * (k + p + 2) * EPS * absacc(i, j)) * fabsl(P(j, k));
      }
      tol += 1e-300L; ttol[k][i] = tol;
      if (!(fabsl(T(i, k) - s) <= tol))
        fail(fmt("score (%d,%d) is not the projection of the deflated data on loading %d: got %.17Lg expected %.17Lg tol %.3Lg (n=%d p=%d scaling=%d)", i, k, k, T(i, k), s, tol, n, p, scaling));
    }
    for (int i = 0; i < n; i++) for (int j = 0; j < p; j++) { E(i, j) -= T(i, k) * P(j, k); absacc(i, j) += fabsl(T(i, k) * P(j, k)); }
  }
  // (3) explained variance
  ld ss = nE * nE, sum = 0;
  for (int k = 0; k < npc; k++) {
    VF_CHECK(std::isfinite((double)ve[k]) && ve[k] >= 0, "explained variance %d is %.17Lg", k, ve[k]);
    ld tt = 0; for (int i = 0; i < n; i++) tt += T(i, k) * T(i, k);
    ld ref = ss > 0 ? 100 * tt / ss : 0;
    VF_CHECK(fabsl(ve[k] - ref) <= ref * (10 * t3 + 1e-9L) + 1e-12L, "explained variance %d = %.12Lg but t't/ss*100 = %.12Lg (n=%d p=%d scaling=%d)", k, ve[k], ref, n, p, scaling);
    if (k > 0 && !(ve[k] <= ve[k - 1] + 5 * t3 * ve[0] + 1e-9L)) {
      // out of order: is it the NIPALS plateau (both components are principal axes, taken in the other order)? -> known finding
      V lamx; M Vx; jacobi_eig(mul(transpose(Pr.X), Pr.X), lamx, Vx);
      int j0 = matched_axis(Vx, P, k - 1), j1 = matched_axis(Vx, P, k);
      std::string msg = fmt("explained variance increases: %.12Lg then %.12Lg", ve[k - 1], ve[k]);
      if (j0 >= 0 && j1 >= 0 && j1 < j0) fail_known("pca-nipals-plateau-order", msg + fmt(" (components %d and %d are the principal axes %d and %d: taken in the other order)", k - 1, k, j0, j1));
      fail(msg);
    }
    sum += ve[k];
  }
  VF_CHECK(sum <= 100 * (1 + 10 * t3 + 1e-9L), "explained variances sum to %.12Lg > 100", sum);
  if (npc == rank && ss > 0) VF_CHECK(fabsl(sum - 100) <= 100 * (10 * t3 + 1e-9L) + 64 * (n + p) * EPS * cond * 100, "all %d components taken but explained variance sums to %.12Lg", npc, sum);

  // (4) residual matrix: E0 - T P', orthogonal to every loading
  {
    matrix *rm; initMatrix(&rm);
    GetResidualMatrix(mx, m, (size_t)npc, rm);
    VF_CHECK((int)rm->row == n && (int)rm->col == p, "GetResidualMatrix shape %s", dims(rm).c_str());
    {   // more components than the model holds: clipped to the model, like PCAScorePredictor / PCAIndVarPredictor do
      matrix *rm2; initMatrix(&rm2); GetResidualMatrix(mx, m, (size_t)npc + 2, rm2);
      for (int i = 0; i < n; i++) for (int j = 0; j < p; j++) VF_CHECK(rm2->data[i][j] == rm->data[i][j], "GetResidualMatrix asked for %d components of a %d-component model differs from the %d-component residual at (%d,%d)", npc + 2, npc, npc, i, j);
      DelMatrix(&rm2);
    }
    for (int i = 0; i < n; i++) {
      ld tsum = 0; for (int k = 0; k < npc; k++) tsum += fabsl(T(i, k));
      for (int j = 0; j < p; j++) {
        ld tol = dE[j] + 64 * (npc + 2) * EPS * absacc(i, j) + 1e-300L;
        if (!(fabsl(rm->data[i][j] - E(i, j)) <= tol)) fail(fmt("GetResidualMatrix (%d,%d): got %.17g expected %.17Lg tol %.3Lg", i, j, rm->data[i][j], E(i, j), tol));
      }
      for (int k = 0; k < npc; k++) {
        ld s = 0, sa = 0; for (int j = 0; j < p; j++) { s += rm->data[i][j] * P(j, k); sa += (fabsl((ld)rm->data[i][j]) + dE[j] + 64 * (npc + 2) * EPS * absacc(i, j)) * fabsl(P(j, k)); }
        ld tol = tsum * orth_tol + 64 * p * EPS * sa + [&] { ld q = 0; for (int j = 0; j < p; j++) q += (dE[j] + 64 * (npc + 2) * EPS * absacc(i, j)) * fabsl(P(j, k)); return q; }() + 1e-300L;
        VF_CHECK(fabsl(s) <= tol, "residual row %d not orthogonal to loading %d: %.3Lg > tol %.3Lg", i, k, s, tol);
      }
    }
    DelMatrix(&rm);
  }
  // (5) projecting the training matrix reproduces the scores
  {
    matrix *ps; initMatrix(&ps);
    PCAScorePredictor(mx, m, (size_t)npc, ps);
    VF_CHECK((int)ps->row == n && (int)ps->col == npc, "PCAScorePredictor shape %s", dims(ps).c_str());
    for (int k = 0; k < npc; k++) for (int i = 0; i < n; i++)
      if (!(fabsl(ps->data[i][k] - T(i, k)) <= 4 * ttol[k][i])) fail(fmt("PCAScorePredictor(training) (%d,%d): %.17g vs training score %.17Lg tol %.3Lg (scaling=%d)", i, k, ps->data[i][k], T(i, k), 4 * ttol[k][i], scaling));
    DelMatrix(&ps);
  }
  // (6) npc = rank: back-transformation reproduces X
  if (npc == rank) {
    matrix *xr; initMatrix(&xr);
    PCAIndVarPredictor(m->scores, m->loadings, m->colaverage, m->colscaling, (size_t)npc, xr);
    VF_CHECK((int)xr->row == n && (int)xr->col == p, "PCAIndVarPredictor shape %s", dims(xr).c_str());
    // the rounding of the preprocessing (N = E_lib - E_exact) makes E_lib of full rank: what T P' leaves out of column j is bounded by
    // |N|_2 <= |N|_F over ALL columns (a column with a large offset perturbs the subspace the others are projected on)
    ld dEF = 0; for (int j = 0; j < p; j++) dEF += n * dE[j] * dE[j]; dEF = sqrtl(dEF);
    // singular values the rank decision (1e-9 relative) neglects are not rounding: they are data the npc = rank components leave out
    ld tail = 0; for (size_t k = (size_t)npc; k < sv.size(); k++) tail += sv[k] * sv[k]; tail = sqrtl(tail);
    for (int i = 0; i < n; i++) for (int j = 0; j < p; j++) {
      ld sc = scaling >= 0 ? fabsl(Pr.scale[j]) : 1, mu = scaling >= 0 ? fabsl(Pr.mean[j]) : 0;
      ld tol = sc * (64 * (n + p) * EPS * cond * nE + dE[j] + 2 * dEF + 2 * tail + 64 * (npc + 2) * EPS * absacc(i, j)) + 64 * EPS * (fabsl(X(i, j)) + mu) + (scaling >= 0 ? 64 * (n + 1) * EPS * (mu + fabsl(X(i, j))) : 0) + 1e-300L;
      if (!(fabsl(xr->data[i][j] - X(i, j)) <= tol)) fail(fmt("PCAIndVarPredictor with all %d components does not reproduce X at (%d,%d): %.17g vs %.17Lg tol %.3Lg (scaling=%d)", npc, i, j, xr->data[i][j], X(i, j), tol, scaling));
    }
    DelMatrix(&xr);
  }
  DelPCAModel(&m); DelMatrix(&mx);
  // (7) repeated call bit-identical; other processor count equal to rounding
  // (thread creation dominates the cost: the comparison is skipped for the slowest-converging cases and says so)
  Fit f0 = fit(X, scaling, npc, 1);
  for (size_t i = 0; i < T.a.size(); i++) VF_CHECK((double)f0.T.a[i] == (double)T.a[i], "PCA repeated with one processor is not bit-identical (scores)");
  if (its * (npA + npB) > 4000) { tag("mt-comparison-skipped(slow convergence)"); return; }
  Fit f1 = fit(X, scaling, npc, npA), f2 = fit(X, scaling, npc, npB);
  { Fit f1b = fit(X, scaling, npc, npA); for (size_t i = 0; i < T.a.size(); i++) VF_CHECK((double)f1.T.a[i] == (double)f1b.T.a[i], "PCA repeated with %d processors is not bit-identical (scores)", npA); }
  for (int k = 0; k < npc; k++) {
    ld tmax = 0; for (int i = 0; i < n; i++) tmax = std::max(tmax, fabsl(T(i, k)));
    ld tol = 1e3L * (n + p) * EPS * cond;
    for (int i = 0; i < n; i++) VF_CHECK(fabsl(f1.T(i, k) - T(i, k)) <= tol * tmax + 1e-300L, "scores differ between 1 and %d processors: (%d,%d) %.17Lg vs %.17Lg", npA, i, k, T(i, k), f1.T(i, k));
    for (int j = 0; j < p; j++) VF_CHECK(fabsl(f1.P(j, k) - P(j, k)) <= tol, "loadings differ between 1 and %d processors", npA);
  }
  for (int k = 0; k < npc; k++) {
    ld tmax = 0; for (int i = 0; i < n; i++) tmax = std::max(tmax, fabsl(T(i, k)));
    ld tol = 1e3L * (n + p) * EPS * cond;
    for (int i = 0; i < n; i++) VF_CHECK(fabsl(f2.T(i, k) - T(i, k)) <= tol * tmax + 1e-300L, "scores differ between %d and %d processors: (%d,%d) %.17Lg vs %.17Lg", npA, npB, i, k, T(i, k), f2.T(i, k));
    for (int j = 0; j < p; j++) VF_CHECK(fabsl(f2.P(j, k) - P(j, k)) <= tol, "loadings differ between %d and %d processors", npA, npB);
    VF_CHECK(fabsl(f2.varexp[k] - ve[k]) <= tol * 100, "explained variance differs between %d and %d processors", npA, npB);
  }
}

Property &vf::property() {
  static Property p{
      "C01",
      "matrices n x p in [2,60]x[1,25] (tall / square / wide forced a third each) built as U diag(s) V^T (rank full or deficient, s "
      "log-uniform over 3 decades) * 10^[-1.5,4] + column offsets, 0-2 constant columns, every other column with sd >= 0.05 (and "
      "|mean| >= 0.05 for option 5); scaling -1..5; npc in [1, rank(preprocessed)] with npc = rank forced in 35 %; processor counts "
      "{1,2,3} vs {2,3,5,8,n+3}. Oracle: identities recomputed in long double from the reference preprocessing; tolerances T1 / T3. "
      "Non-trivial: npc >= 2 and scaling != 0.",
      {
          {"decomposition", gen_c01, pred_c01, 1500, 10000, 100},
      }};
  return p;
}
