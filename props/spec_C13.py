"""C13 extras: the generated value cases are replayed under ThreadSanitizer - overlapping slices of the overwriting kernels
(two workers writing the same output row with the same value) are invisible to value comparison but are a write-write race."""
import spec_C06

def extra(chk, res, tier, seed):
    spec_C06.tsan_pass(chk, res, tier, seed, prop="C13", sub="values", count_quick=24, count_thorough=300)

def setup(chk):
    chk.build_harness("C13", variant="tsan", with_rc=False, extra_cxx=["-DVERIF_NO_SCHED"], tagname="C13tsan")
