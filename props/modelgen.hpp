// Generators and helpers shared by the PCA / PLS / CPCA harnesses (C01 C02 C03 C04 C09 C16 C18).
#pragma once
#include "common.hpp"

namespace vf {

// X = U diag(s) V^T * 10^mag + column offsets, rank r <= min(n,p); s_1 = 1, ratios controlled by the caller.
inline orc::M gen_lowrank(Draw &d, int n, int p, const orc::V &s, double mag, bool offsets) {
  int r = (int)s.size();
  orc::M U = gen_orthonormal(d, n, r), W = gen_orthonormal(d, p, r);
  orc::M X(n, p);
  double sc = std::pow(10.0, mag);
  std::vector<double> off(p, 0.0);
  if (offsets) for (int j = 0; j < p; j++) off[j] = d.coin(30) ? 0.0 : (d.coin(50) ? 1 : -1) * gen_logu(d, -1, 3) * sc;
  for (int i = 0; i < n; i++) for (int j = 0; j < p; j++) {
    orc::ld x = 0; for (int k = 0; k < r; k++) x += U(i, k) * s[k] * W(j, k);
    // sqrt(n) keeps the per-cell magnitude ~ 10^mag whatever n is
    X(i, j) = (double)(x * sc * std::sqrt((double)n) + off[j]);
  }
  return X;
}

// spectrum with s[0]=1 and ratios s[k+1]/s[k] drawn in [lo, hi]
inline orc::V gen_ratio_spectrum(Draw &d, int r, double lo, double hi) {
  orc::V s(r); if (r > 0) s[0] = 1;
  for (int k = 1; k < r; k++) s[k] = s[k - 1] * d.real(lo, hi);
  return s;
}
// spectrum log-uniform over `decades`
inline orc::V gen_log_spectrum(Draw &d, int r, double decades) {
  orc::V s(r); for (int k = 0; k < r; k++) s[k] = std::pow(10.0, -d.real(0, decades));
  if (r > 0) s[0] = 1;
  std::sort(s.begin(), s.end(), [](orc::ld a, orc::ld b) { return a > b; });
  return s;
}

// Enforce the preprocessing domain on the columns of X for a scaling option:
// sample sd >= 0.05 (or the column is exactly constant), and for option 5 |mean| >= 0.05.
inline void enforce_scale_domain(orc::M &X, int option, bool always = true) {
  int n = X.r, p = X.c;
  if (!always && option <= 0) { for (auto &x : X.a) x = (double)x; return; }
  for (int j = 0; j < p; j++) {
    orc::ld s = 0; for (int i = 0; i < n; i++) s += X(i, j);
    orc::ld mu = s / n, ss = 0; for (int i = 0; i < n; i++) ss += (X(i, j) - mu) * (X(i, j) - mu);
    orc::ld sd = n > 1 ? sqrtl(ss / (n - 1)) : 0;
    if (sd == 0) continue;
    if (sd < 0.05L) { orc::ld f = 0.05L / sd; for (int i = 0; i < n; i++) X(i, j) = (double)(mu + (X(i, j) - mu) * f); }
    if (option == 5) {
      s = 0; for (int i = 0; i < n; i++) s += X(i, j); mu = s / n;
      if (fabsl(mu) < 0.05L) for (int i = 0; i < n; i++) X(i, j) = (double)(X(i, j) + 1.0);
    }
  }
  for (auto &x : X.a) x = (double)x;
}
inline void make_constant_column(orc::M &X, int j, double v) { for (int i = 0; i < X.r; i++) X(i, j) = v; }

// bound of |E_lib - E_ref| per column (see props/C10.cpp for the derivation); E_ref from orc::ref_preprocess
inline orc::V prep_col_bound(const orc::M &X, const orc::Prep &P, int option) {
  int n = X.r, p = X.c; orc::V b(p, 0);
  if (option < 0) return b;
  for (int j = 0; j < p; j++) {
    orc::ld sa = 0, amax = 0, tmax = 0, sad = 0, ss = 0;
    for (int i = 0; i < n; i++) { sa += fabsl(X(i, j)); amax = std::max(amax, fabsl(X(i, j))); tmax = std::max(tmax, fabsl(P.X(i, j))); orc::ld dd = X(i, j) - P.mean[j]; sad += fabsl(dd); ss += dd * dd; }
    orc::ld dmu = 64 * (n + 1) * orc::EPS * sa / n;
    orc::ld dd = dmu + 4 * orc::EPS * (amax + fabsl(P.mean[j]));
    orc::ld sc = fabsl(P.scale[j]);
    if (sc == 0) { b[j] = 0; continue; }
    // relative error of the scale: dominated by the centring error for sd-like scales
    orc::ld sd = n > 1 ? sqrtl(ss / (n - 1)) : 0;
    orc::ld dvar = n > 1 ? (2 * sad * dd + n * dd * dd + 64 * (n + 1) * orc::EPS * ss) / (n - 1) : 0;
    orc::ld dsd = sd > 0 ? dvar / (2 * sd) + 4 * orc::EPS * sd : 0;
    orc::ld dsc = (option == 1) ? dsd : (option == 3) ? (sd > 0 ? dsd / (2 * sqrtl(sd)) + 4 * orc::EPS * sqrtl(sd) : 0)
                 : (option == 5) ? dmu : 64 * (n + 2) * orc::EPS * sc;
    b[j] = dd / sc + tmax * dsc / sc + 8 * orc::EPS * tmax;
  }
  return b;
}


// ---- PLS / regression data ------------------------------------------------------------------------
struct RegData { orc::M X, Y; double noise; };
// X n x p of full column rank with singular values over <= `decades` decades (+ offsets), Y = X*B + noise
inline RegData gen_regression(Draw &d, int n, int p, int ny, double decades, int xopt, int yopt, bool allow_correlated = true) {
  RegData R;
  orc::V s = gen_log_spectrum(d, p, decades);
  R.X = gen_lowrank(d, n, p, s, d.real(-1, 2), true);
  enforce_scale_domain(R.X, xopt, false);
  for (auto &x : R.X.a) x = (double)x;
  orc::M B(p, ny); { auto bi = d.ivec((size_t)p * ny, -100, 100); for (size_t i = 0; i < B.a.size(); i++) B.a[i] = (orc::ld)bi[i] / 20; }
  R.noise = d.pick<double>({0.0, 0.0, 0.01, 0.3, 3.0});
  orc::M Y = orc::mul(R.X, B);
  // centred signal scale, so that "noise" is relative to the linear part
  orc::ld sig = 0; for (int j = 0; j < ny; j++) { orc::ld mu = 0; for (int i = 0; i < n; i++) mu += Y(i, j); mu /= n; for (int i = 0; i < n; i++) sig += (Y(i, j) - mu) * (Y(i, j) - mu); }
  sig = sqrtl(sig / std::max(1, n * ny)); if (sig == 0) sig = 1;
  auto g = d.ivec((size_t)n * ny, -1000, 1000);
  for (int i = 0; i < n; i++) for (int j = 0; j < ny; j++) Y(i, j) += R.noise * sig * (orc::ld)g[(size_t)i * ny + j] / 500;
  if (allow_correlated && ny >= 2 && d.coin(40)) for (int i = 0; i < n; i++) Y(i, 1) = Y(i, 1) * 0.2L + Y(i, 0);   // correlated responses
  for (int j = 0; j < ny; j++) { double sc = d.pick<double>({1.0, 1.0, 1e3, 1e-3}); for (int i = 0; i < n; i++) Y(i, j) *= sc; }
  // non-constant responses inside the preprocessing domain
  for (int j = 0; j < ny; j++) { bool cst = true; for (int i = 1; i < n; i++) if (Y(i, j) != Y(0, j)) cst = false; if (cst) for (int i = 0; i < n; i++) Y(i, j) += (i % 2) ? 0.5 : -0.5; }
  enforce_scale_domain(Y, yopt, false);
  for (auto &x : Y.a) x = (double)x;
  R.Y = Y;
  return R;
}

// NIPALS plateau (KNOWN FINDING pca-nipals-plateau-order): a power iteration whose start column has almost no component along the
// dominant direction settles on ANOTHER principal axis and meets the stopping rule there (relative change of the score vector below
// sqrt(n*1e-10)); the dominant axis is extracted one component later.  Signature, decided on the library's output against the oracle
// axes V (columns, eigenvalues descending): component k of the library is a principal axis (|cos| >= 1 - 1e-4) other than the k-th.
// Returns the oracle index matched by library loading k, or -1 when it is not a principal axis at all.
inline int matched_axis(const orc::M &V, const orc::M &Plib, int k) {
  int best = -1; orc::ld bc = 0;
  for (int j = 0; j < V.c; j++) { orc::ld dp = 0; for (int i = 0; i < V.r; i++) dp += V(i, j) * Plib(i, k); if (fabsl(dp) > bc) { bc = fabsl(dp); best = j; } }
  return bc >= 1 - 1e-4L ? best : -1;
}

// Orthogonal designs: two-level full factorials (replicated), integer column scales and offsets, integer / exactly linear
// responses.  After the first latent variables the X'y covariance is EXHAUSTED (exactly, or down to rounding residue) although
// rank(X) is not reached - a structure continuous draws never produce.
inline RegData gen_design_regression(Draw &d, int &n, int &p, int ny, int xopt, int yopt) {
  p = (int)d.i(2, 4); int reps = (int)d.i(1, 2); n = (1 << p) * reps; if (n < 8) n = 8;
  RegData R; R.X = orc::M(n, p); R.Y = orc::M(n, ny);
  auto sc = d.ivec(p, 1, 3), off = d.ivec(p, -1, 1);
  for (int i = 0; i < n; i++) for (int j = 0; j < p; j++) R.X(i, j) = (double)((((i >> j) & 1) ? 1 : -1) * sc[j] + 5 * off[j]);
  int kind = (int)d.i(0, 3);   // 0 integer noise, 1 linear in one column, 2 linear in two columns, 3 linear + small integer noise
  auto yi = d.ivec((size_t)n * ny, -5, 5), co = d.ivec((size_t)2 * ny, -3, 3), cst = d.ivec(ny, -4, 4);
  for (int j = 0; j < ny; j++) { int c1 = j % p, c2 = (j + 1) % p; int a1 = co[2 * j] == 0 ? 2 : (int)co[2 * j], a2 = (int)co[2 * j + 1];
    for (int i = 0; i < n; i++) {
      double lin = a1 * (double)R.X(i, c1) + (kind >= 2 ? a2 * (double)R.X(i, c2) : 0.0) + (double)cst[j];
      R.Y(i, j) = kind == 0 ? (double)yi[(size_t)i * ny + j] : kind == 3 ? lin + (double)yi[(size_t)i * ny + j] / 4 : lin;
    }
    bool cstcol = true; for (int i = 1; i < n; i++) if (R.Y(i, j) != R.Y(0, j)) cstcol = false;
    if (cstcol) for (int i = 0; i < n; i++) R.Y(i, j) += (i % 2) ? 1 : -1;
  }
  R.noise = (kind == 0 || kind == 3) ? 1.0 : 0.0;
  enforce_scale_domain(R.X, xopt, false); enforce_scale_domain(R.Y, yopt, false);   // level scaling needs |mean| >= 0.05: shifts by 1
  return R;
}

}  // namespace vf
