"""C14 extras: the coverage-guided second driver (libFuzzer) of the container interpreter, and replay of its artifacts."""
import os, re, glob, shutil, subprocess, concurrent.futures

def build_fuzzer(chk):
    return chk.build_harness("C14", variant="fuzz", with_rc=False, source=os.path.join(chk.VERIF, "props", "C14_fuzz.cpp"), tagname="C14fuzz", nomain=True)

def case_to_bytes(path):
    txt = open(path).read().split("\n")
    p = [int(x) for x in txt[1].split()[2:]]
    return bytes([abs(v) % 256 for v in p])

def bytes_to_case(data, dst):
    n = min(len(data) // 6, 120) * 6
    open(dst, "w").write("sub mixed\np %d %s\nv 0\n# converted from a libFuzzer artifact\n" % (n, " ".join(str(b) for b in data[:n])))

def extra(chk, res, tier, seed):
    exe = build_fuzzer(chk)
    rc_exe = chk.build_harness("C14")
    workers, runs = (8, 400000) if tier == "thorough" else (2, 30000)
    base = os.path.join(chk.BUILD, "tmp", "fuzz14-%d" % os.getpid()); shutil.rmtree(base, ignore_errors=True)
    def one(k):
        d = os.path.join(base, str(k)); corpus = os.path.join(d, "corpus"); os.makedirs(corpus)
        if k % 2 == 1:    # odd workers start from the saved replays, even ones from an empty corpus
            for i, f in enumerate(sorted(glob.glob(os.path.join(chk.VERIF, "replays", "C14", "*.case")))):
                open(os.path.join(corpus, "seed%d" % i), "wb").write(case_to_bytes(f))
        s = (seed * 1000 + k) % (2**31 - 1) or 1
        tl = ["-max_total_time=%d" % int(os.environ.get("VERIF_THOROUGH_BUDGET_S", "900"))] if tier == "thorough" else []
        p = subprocess.run([exe, corpus, "-runs=%d" % runs, "-seed=%d" % s, "-max_len=720"] + tl + [ "-artifact_prefix=" + d + "/", "-print_final_stats=1", "-verbosity=0"],
                           stdout=subprocess.PIPE, stderr=subprocess.PIPE, text=True, env=chk.child_env())
        m = re.search(r"stat::number_of_executed_units:\s*(\d+)", p.stderr)
        return k, d, int(m.group(1)) if m else 0, p.returncode, p.stderr[-1500:]
    total = 0; crashes = 0
    rdir = os.path.join(chk.VERIF, "evidence", "replay"); os.makedirs(rdir, exist_ok=True)
    with concurrent.futures.ThreadPoolExecutor(workers) as ex:
        for k, d, n, rc, err in ex.map(one, range(workers)):
            total += n
            for art in glob.glob(os.path.join(d, "crash-*")) + glob.glob(os.path.join(d, "leak-*")):   # timeout / oom / slow-unit are load noise
                crashes += 1
                keep = os.path.join(rdir, "C14-fuzz-%s.case" % os.path.basename(art)[:24])
                bytes_to_case(open(art, "rb").read(), keep)
                chk.confirm_and_report(res, rc_exe, keep, "libFuzzer artifact %s: %s" % (os.path.basename(art), err.replace("\n", " | ")[-300:]))
    res.extra["libfuzzer_executions"] = total; res.extra["libfuzzer_workers"] = workers; res.extra["libfuzzer_artifacts"] = crashes
    shutil.rmtree(base, ignore_errors=True)

def setup(chk):
    build_fuzzer(chk)
