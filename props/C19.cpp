// C19 — spline, trapezoid area and simplex minimiser meet their numerical contracts.
#include "common.hpp"
using namespace vf;
using namespace orc;

// ---- reference natural cubic spline (long double) --------------------------------------------
struct Spl { V x, a, b, c, d; };
static Spl ref_spline(const V &x, const V &y) {
  int n = (int)x.size() - 1; Spl s; s.x = x; s.a = y; s.b.assign(n, 0); s.c.assign(n + 1, 0); s.d.assign(n, 0);
  V h(n), al(n, 0), l(n + 1, 1), mu(n + 1, 0), z(n + 1, 0);
  for (int i = 0; i < n; i++) h[i] = x[i + 1] - x[i];
  for (int i = 1; i < n; i++) al[i] = 3 / h[i] * (y[i + 1] - y[i]) - 3 / h[i - 1] * (y[i] - y[i - 1]);
  for (int i = 1; i < n; i++) { l[i] = 2 * (x[i + 1] - x[i - 1]) - h[i - 1] * mu[i - 1]; mu[i] = h[i] / l[i]; z[i] = (al[i] - h[i - 1] * z[i - 1]) / l[i]; }
  for (int j = n - 1; j >= 0; j--) { s.c[j] = z[j] - mu[j] * s.c[j + 1]; s.b[j] = (y[j + 1] - y[j]) / h[j] - h[j] * (s.c[j + 1] + 2 * s.c[j]) / 3; s.d[j] = (s.c[j + 1] - s.c[j]) / (3 * h[j]); }
  return s;
}
static ld ref_eval(const Spl &s, ld q, ld *mag = nullptr) {
  int n = (int)s.x.size() - 1, j = n - 1;
  for (int k = 0; k < n; k++) if (q <= s.x[k + 1]) { j = k; break; }
  ld t = q - s.x[j];
  if (mag) *mag = fabsl(s.a[j]) + fabsl(s.b[j] * t) + fabsl(s.c[j] * t * t) + fabsl(s.d[j] * t * t * t);
  return s.a[j] + s.b[j] * t + s.c[j] * t * t + s.d[j] * t * t * t;
}

static void gen_knots(Draw &d, int n, V &x, bool &small, bool &mixed) {
  int mode = (int)d.i(0, 2);   // 0 uniform, 1 irregular within one decade, 2 mixed by up to 6 decades
  double e0 = d.real(-4, 4);
  x.assign(n, 0); x[0] = d.coin(50) ? 0 : d.real(-100, 100) * std::pow(10.0, e0);
  double hmin = 1e300, hmax = 0;
  for (int i = 1; i < n; i++) {
    double h = std::pow(10.0, e0);
    if (mode == 1) h *= d.real(0.3, 3); if (mode == 2) h = std::pow(10.0, d.real(-4, 2)) * d.real(1, 9);
    if (h < 1e-4) h = 1e-4; if (h > 1e4) h = 1e4;
    x[i] = (double)(x[i - 1] + h);
    if (!(x[i] > x[i - 1])) x[i] = std::nextafter((double)x[i - 1], 1e300);
    double hh = (double)(x[i] - x[i - 1]); hmin = std::min(hmin, hh); hmax = std::max(hmax, hh);
  }
  small = hmin < 0.01; mixed = hmax / hmin >= 1e3;
}

static void gen_spline(Draw &d, Case &c) {
  int n = (int)d.sz(3, 40);
  V x; bool small, mixed; gen_knots(d, n, x, small, mixed);
  bool line = d.coin(12);
  double ys = std::pow(10.0, (double)d.i(-4, 4));
  auto yi = d.ivec(n, -1000, 1000);
  double la = d.real(-5, 5), lb = d.real(-50, 50);
  V y(n); for (int i = 0; i < n; i++) y[i] = line ? (double)(la * x[i] + lb) : (double)yi[i] / 100.0 * ys;
  double scale = std::pow(10.0, (double)d.i(-4, 4)) * d.pick<double>({1.0, 2.0, 3.7});
  c.p = {n, line ? 1 : 0};
  put(c, x); put(c, y); c.v.push_back(scale); c.v.push_back(la); c.v.push_back(lb);
  // query points: knots, midpoints, near-knot (+-1e-3 h), random interior
  auto f = d.ivec(2 * n, 1, 999);
  for (int i = 0; i + 1 < n; i++) { ld h = x[i + 1] - x[i]; c.v.push_back((double)(x[i] + h * f[2 * i] / 1000)); c.v.push_back((double)(x[i] + h * 1e-3L)); c.v.push_back((double)(x[i + 1] - h * 1e-3L)); }
  c.nontrivial = small || mixed;
  if (small) c.tags.push_back("spacing<0.01"); if (mixed) c.tags.push_back("spacing-mixed>=3-decades"); if (line) c.tags.push_back("straight-line");
}
static void lib_spline(const V &x, const V &y, M &S, const V &q, V &out) {
  M XY((int)x.size(), 2); for (size_t i = 0; i < x.size(); i++) { XY((int)i, 0) = x[i]; XY((int)i, 1) = y[i]; }
  matrix *xy = to_lib(XY), *s; initMatrix(&s);
  cubic_spline_interpolation(xy, s);
  S = from_lib(s);
  dvector *dq = to_lib(q), *yp; initDVector(&yp);
  cubic_spline_predict(dq, s, yp);
  out = from_lib(yp);
  DelMatrix(&xy); DelMatrix(&s); DelDVector(&dq); DelDVector(&yp);
}
static void pred_spline(const Case &c) {
  Reader rd(c);
  int n = (int)rd.i(), line = (int)rd.i();
  V x = rd.vec(n), y = rd.vec(n); double scale = rd.d(), la = rd.d(), lb = rd.d();
  V q; for (int i = 0; i < n; i++) q.push_back(x[i]);
  for (int i = 0; i < 3 * (n - 1); i++) { ld v = rd.d(); if (v >= x[0] && v <= x[n - 1]) q.push_back(v); }
  M S; V out; lib_spline(x, y, S, q, out);
  int np = n - 1;
  VF_CHECK(S.r == np && S.c == 5, "coefficient table is %dx%d for %d knots", S.r, S.c, n);
  VF_CHECK(all_finite(S), "non-finite spline coefficients");
  Spl R = ref_spline(x, y);
  ld ymax = 0; for (ld v : y) ymax = std::max(ymax, fabsl(v));
  ld hmin = 1e300L, hmax = 0; for (int i = 0; i < np; i++) { hmin = std::min(hmin, x[i + 1] - x[i]); hmax = std::max(hmax, x[i + 1] - x[i]); }
  ld amp = 1e4L * n * EPS * (hmax / hmin);   // error amplification allowed for the tridiagonal solve with mixed spacings
  for (int j = 0; j < np; j++) {
    ld h = x[j + 1] - x[j], a = S(j, 1), b = S(j, 2), cc = S(j, 3), dd = S(j, 4);
    ld mag = fabsl(a) + fabsl(b * h) + fabsl(cc * h * h) + fabsl(dd * h * h * h) + ymax;
    VF_CHECK((double)S(j, 0) == (double)x[j], "piece %d starts at %.17Lg, knot is %.17Lg", j, S(j, 0), x[j]);
    VF_CLOSE(a, y[j], 0, "spline does not pass through the left knot of a piece");
    VF_CLOSE(a + b * h + cc * h * h + dd * h * h * h, y[j + 1], amp * mag + 1e-300L, fmt("piece %d does not reach the next knot", j).c_str());
    if (j + 1 < np) {
      ld b1 = S(j + 1, 2), c1 = S(j + 1, 3);
      VF_CLOSE(b + 2 * cc * h + 3 * dd * h * h, b1, amp * (mag / h + fabsl(b1)) + 1e-300L, fmt("first derivative jumps at knot %d", j + 1).c_str());
      VF_CLOSE(2 * cc + 6 * dd * h, 2 * c1, amp * (mag / (h * h) + fabsl(c1)) * 2 + 1e-300L, fmt("second derivative jumps at knot %d", j + 1).c_str());
    } else VF_CLOSE(2 * cc + 6 * dd * h, 0, amp * (mag / (h * h)) * 2 + 1e-300L, "second derivative at the last knot is not zero");
    if (j == 0) VF_CLOSE(cc, 0, 0, "second derivative at the first knot is not zero");
    // agreement with the long-double reference
    VF_CLOSE(b, R.b[j], amp * (mag / h) + 1e-300L, fmt("coefficient b of piece %d vs reference spline", j).c_str());
    VF_CLOSE(cc, R.c[j], amp * (mag / (h * h)) + 1e-300L, fmt("coefficient c of piece %d vs reference spline", j).c_str());
  }
  // evaluation = piece polynomial of the interval that contains the query
  for (size_t i = 0; i < q.size(); i++) {
    ld mag; ld ref = ref_eval(R, q[i], &mag);
    if (!(std::isfinite((double)out[i]) && fabsl(out[i] - ref) <= amp * (mag + ymax) + 1e-300L))
      fail(fmt("cubic_spline_predict(%.17Lg) = %.12Lg but the spline through the knots gives %.12Lg (knot spacing %.3Lg .. %.3Lg, %d knots)", q[i], out[i], ref, hmin, hmax, n));
    if (line) VF_CLOSE(out[i], la * q[i] + lb, amp * (fabsl(la * q[i]) + fabsl(lb) + ymax) + 1e-300L, "straight line not reproduced");
  }
  // change of the units of x
  {
    V xs(n), qs(q.size()); for (int i = 0; i < n; i++) xs[i] = (double)(x[i] * scale);
    bool ok = true; for (int i = 1; i < n; i++) if (!(xs[i] > xs[i - 1])) ok = false;
    for (size_t i = 0; i < q.size(); i++) { qs[i] = (double)(q[i] * scale); if (qs[i] < xs[0]) qs[i] = xs[0]; if (qs[i] > xs[n - 1]) qs[i] = xs[n - 1]; }
    if (ok) {
      M S2; V out2; lib_spline(xs, y, S2, qs, out2);
      Spl R2 = ref_spline(xs, y);
      for (size_t i = 0; i < q.size(); i++) {
        ld mag; ld ref = ref_eval(R2, qs[i], &mag);
        if (!(fabsl(out2[i] - ref) <= amp * (mag + ymax) + 1e-300L))
          fail(fmt("after x -> %.4g*x: cubic_spline_predict(%.17Lg) = %.12Lg but the spline gives %.12Lg (spacing %.3Lg .. %.3Lg)", scale, qs[i], out2[i], ref, hmin * scale, hmax * scale));
      }
    }
  }
  // interpolate(): first and last generated points are the end knots
  {
    M XY(n, 2); for (int i = 0; i < n; i++) { XY(i, 0) = x[i]; XY(i, 1) = y[i]; }
    matrix *xy = to_lib(XY), *ip; initMatrix(&ip);
    size_t npts = 2 + (size_t)(n % 7);
    interpolate(xy, npts, ip);
    VF_CHECK(ip->row == npts && ip->col == 2, "interpolate() shape %s", dims(ip).c_str());
    VF_CLOSE(ip->data[0][0], x[0], 0, "interpolate(): first abscissa"); VF_CLOSE(ip->data[0][1], y[0], amp * ymax, "interpolate(): first ordinate");
    VF_CLOSE(ip->data[npts - 1][0], x[n - 1], 64 * npts * EPS * (fabsl(x[0]) + fabsl(x[n - 1])), "interpolate(): last abscissa");
    DelMatrix(&xy); DelMatrix(&ip);
  }
}

// ------------------------------------------------------------------------------------------------
static void gen_area(Draw &d, Case &c) {
  int n = (int)d.sz(2, 40);
  V x; bool s, m; gen_knots(d, n, x, s, m);
  auto yi = d.ivec(n, -1000, 1000); double ys = std::pow(10.0, (double)d.i(-4, 4));
  c.p = {n, d.i(1, std::max(1, n - 2))};
  put(c, x); for (int i = 0; i < n; i++) c.v.push_back((double)yi[i] / 100.0 * ys);
  c.nontrivial = s || m;
}
static double lib_area(const V &x, const V &y, int from, int to) {
  M XY(to - from + 1, 2); for (int i = from; i <= to; i++) { XY(i - from, 0) = x[i]; XY(i - from, 1) = y[i]; }
  matrix *xy = to_lib(XY); double a = curve_area(xy, 0); DelMatrix(&xy); return a;
}
static void pred_area(const Case &c) {
  Reader rd(c);
  int n = (int)rd.i(), k = (int)rd.i(); V x = rd.vec(n), y = rd.vec(n);
  ld ref = 0, sa = 0; for (int i = 0; i + 1 < n; i++) { ld t = (x[i + 1] - x[i]) * (y[i] + y[i + 1]) / 2; ref += t; sa += fabsl(t); }
  double a = lib_area(x, y, 0, n - 1);
  VF_CLOSE(a, ref, tol_T1(n, sa) + 1e-300L, "curve_area vs the exact integral of the polyline");
  if (k >= 1 && k <= n - 2) VF_CLOSE((ld)lib_area(x, y, 0, k) + (ld)lib_area(x, y, k, n - 1), a, 2 * tol_T1(n, sa) + 1e-300L, "curve_area not additive over sub-ranges");
}

// ------------------------------------------------------------------------------------------------
static int g_dim; static M g_A; static V g_m; static ld g_c; static long g_calls;
static double quad(dvector *v) {
  g_calls++;
  ld s = g_c; for (int i = 0; i < g_dim; i++) for (int j = 0; j < g_dim; j++) s += ((ld)v->data[i] - g_m[i]) * g_A(i, j) * ((ld)v->data[j] - g_m[j]);
  return (double)s;
}
static void gen_simplex(Draw &d, Case &c) {
  int dim = (int)d.i(2, 6);
  if (d.coin(35)) {
    // structured configurations: axis-aligned quadratics with small integer curvatures, integer minimiser, start point and steps on
    // a half-integer grid - symmetric simplices on which objective values TIE exactly (a continuous draw never produces a tie)
    M A(dim, dim); bool iso = d.coin(50);
    for (int i = 0; i < dim; i++) A(i, i) = iso ? 1.0 : (double)d.i(1, 4);
    c.p = {dim}; put(c, A);
    // coordinate level: a third of the grid-aligned cases sit at 1e4 or 1e6 (exactly representable), where "the vertices have come
    // together" must not be judged relative to the coordinates
    double level = d.coin(65) ? 0.0 : d.pick<double>({1e4, 1e6});
    if (level != 0.0) c.tags.push_back(fmt("level=%g", level));
    for (int i = 0; i < dim; i++) c.v.push_back((double)d.i(-5, 5) + level);
    c.v.push_back((double)d.i(-10, 10));
    { bool fine = d.coin(40); for (int i = 0; i < dim; i++) c.v.push_back(fine ? (double)d.i(-64, 64) / 32 : (double)d.i(-8, 8) / 2); }
    for (int i = 0; i < dim; i++) c.v.push_back((d.coin(50) ? 1 : -1) * d.pick<double>({0.5, 1.0, 1.0, 2.0}));
    { double xt = d.pick<double>({1e-12, 1e-12, 1e-8, 1e-6}); c.v.push_back(xt); if (xt != 1e-12) c.tags.push_back(fmt("xtol=%g", xt)); }
    c.nontrivial = true;
    c.tags.push_back(fmt("dim=%d", dim)); c.tags.push_back("grid-aligned(ties)");
    return;
  }
  M Q = gen_orthonormal(d, dim, dim); V ev(dim); double kap = d.real(1, 100);
  for (int i = 0; i < dim; i++) ev[i] = std::pow(kap, (double)i / std::max(1, dim - 1)) * d.pick<double>({1.0, 1.0, 0.01, 100.0});
  { double sc = (double)ev[0]; for (auto &e : ev) e = e / sc * sc; }
  M A(dim, dim); for (int i = 0; i < dim; i++) for (int j = 0; j < dim; j++) { ld s = 0; for (int k = 0; k < dim; k++) s += Q(i, k) * ev[k] * Q(j, k); A(i, j) = (double)s; }
  for (int i = 0; i < dim; i++) for (int j = 0; j < i; j++) A(i, j) = A(j, i);
  c.p = {dim};
  put(c, A);
  for (int i = 0; i < dim; i++) c.v.push_back(d.real(-50, 50));            // minimiser
  c.v.push_back(d.real(-100, 100));                                          // minimum value
  for (int i = 0; i < dim; i++) c.v.push_back(d.real(-10, 10));            // start offset from the minimiser
  // steps: "arbitrary" includes steps that are tiny against the distance to travel (a tenth of the cases: 1e-6..1e-3)
  bool tiny = d.coin(10); double tsc = tiny ? std::pow(10.0, d.real(-6, -3)) : 1.0;
  for (int i = 0; i < dim; i++) c.v.push_back((d.coin(50) ? 1 : -1) * d.real(0.05, 5) * (tiny ? tsc / 5 : 1.0));   // steps
  c.nontrivial = dim >= 3;
  c.tags.push_back(fmt("dim=%d", dim)); if (tiny) c.tags.push_back("tiny-initial-steps");
}
static void pred_simplex(const Case &c) {
  Reader rd(c);
  int dim = (int)rd.i(); g_dim = dim; g_A = rd.mat(dim, dim); g_m = rd.vec(dim); g_c = rd.d();
  V off = rd.vec(dim), st = rd.vec(dim);
  double xtol = c.v.size() > (size_t)(dim * dim + 3 * dim + 1) ? rd.d() : 1e-12;
  dvector *x0, *step, *best; NewDVector(&x0, dim); NewDVector(&step, dim); initDVector(&best);
  for (int i = 0; i < dim; i++) { x0->data[i] = (double)(g_m[i] + off[i]); step->data[i] = (double)st[i]; }
  // best vertex of the initial simplex
  double f0 = quad(x0), fbest0 = f0;
  for (int i = 0; i < dim; i++) { dvector *t; NewDVector(&t, dim); for (int j = 0; j < dim; j++) t->data[j] = x0->data[j] + (i == j ? step->data[j] : 0); fbest0 = std::min(fbest0, quad(t)); DelDVector(&t); }
  g_calls = 0;
  size_t iters = 20000;
  double res = NelderMeadSimplex((double (*)())quad, x0, step, xtol, iters, best);
  VF_CHECK((int)best->size == dim, "best has %zu coordinates", best->size);
  VF_CHECK(g_calls <= (long)(iters + 2) * (dim + 2) + dim + 1, "objective evaluated %ld times for iter=%zu in %d dimensions: the iteration cap does not bound the run", g_calls, iters, dim);
  double fb = quad(best);
  VF_CHECK(fb == res, "reported value %.17g is not the objective at the returned point (%.17g)", res, fb);
  VF_CHECK(res <= fbest0, "returned value %.17g is worse than the best vertex of the initial simplex %.17g", res, fbest0);
  ld gap0 = (ld)f0 - g_c;
  {
    // KNOWN FINDING (known_findings.txt): started from a simplex that is tiny against the distance to the minimiser, in 3 or more
    // dimensions, the method can stretch the simplex into a degenerate one that collapses onto a level set and meets the stop test at
    // a non-stationary point.  Such failures are attributed to that finding; every other failure is reported.
    ld dist0 = 0, smax = 0; for (int i = 0; i < dim; i++) { dist0 += off[i] * off[i]; smax = std::max(smax, fabsl(st[i])); } dist0 = sqrtl(dist0);
    bool tinystart = dim >= 3 && smax <= 2e-3L * dist0;
    if (tinystart && !((ld)res - g_c <= std::max<ld>(1e-6L * gap0 + 1e-9L, 1000 * (ld)xtol)))
      fail_known("simplex-tiny-initial-steps-collapse", fmt("simplex started with steps <= 2e-3 of the distance to the minimiser stopped at f - f* = %.3Lg (f(x0) - f* = %.3Lg, %d dimensions, %ld evaluations)", (ld)res - g_c, gap0, dim, g_calls));
  }
  VF_CHECK((ld)res - g_c <= std::max<ld>(1e-6L * gap0 + 1e-9L, 1000 * (ld)xtol), "simplex stopped at f - f* = %.3Lg (f(x0) - f* = %.3Lg, %d dimensions, xtol %g, %ld evaluations)", (ld)res - g_c, gap0, dim, xtol, g_calls);
  tag(g_calls < 1000 ? "evals<1e3" : g_calls < 10000 ? "evals<1e4" : "evals>=1e4");
  DelDVector(&x0); DelDVector(&step); DelDVector(&best);
}

Property &vf::property() {
  static Property p{
      "C19",
      "spline: 3..40 strictly increasing knots with spacings 1e-4..1e4 (uniform / irregular / mixed by up to 6 decades), ordinates at scales "
      "1e-4..1e4 (12 % straight lines), queries at knots, interior points and +-1e-3*h next to knots, unit change x -> s*x; area: polylines "
      "of 2..40 points, split at an interior knot; simplex: strictly convex quadratics in 2..6 dimensions, condition number <= 100, start "
      "within 10 units of the minimiser, steps 0.05..5, xtol 1e-12, iter 20000. Oracles: long-double reference spline, piece identities, "
      "exact polyline integral, known minimum. Non-trivial: knot spacing < 0.01 or mixed by >= 3 decades; quadratic dimension >= 3.",
      {
          {"spline", gen_spline, pred_spline, 2400, 15000, 100},
          {"area", gen_area, pred_area, 1600, 10000, 100},
          {"simplex", gen_simplex, pred_simplex, 800, 5000, 100},
      }};
  return p;
}
