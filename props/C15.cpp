// C15 — regression and classification figures of merit equal their definitions.
#include "common.hpp"
using namespace vf;
using namespace orc;
static const double MISS = 99999999.0;

// ------------------------------------------------------------------------------------------------
static void gen_reg(Draw &d, Case &c) {
  int n = (int)d.sz(2, 200);
  int k = (int)d.i(-6, 6);
  bool perfect = d.coin(10);
  int ny = (int)d.i(1, 3), nlv = (int)d.i(1, 3);
  auto t = gen_values(d, (size_t)n * ny, k, k, false);
  auto e = gen_values(d, (size_t)n * ny * nlv, k - (int)d.i(0, 3), k, d.coin(30));
  // truths must not be constant (R2 divides by the total sum of squares): force two distinct values per response
  for (int j = 0; j < ny; j++) { t[(size_t)0 * ny + j] = 1.5 * std::pow(10.0, k); t[(size_t)1 * ny + j] = -2.5 * std::pow(10.0, k); }
  // a third of the cases: every response sits on a level of 1e2..1e7 times its spread (one-pass / expanded sums of squares
  // lose (level/spread)^2 * eps there; the definitions checked here are two-pass)
  bool lvl = d.coin(33);
  if (lvl) for (int j = 0; j < ny; j++) { double off = (d.coin(50) ? 1 : -1) * std::pow(10.0, k + d.real(2, 7)); for (int i = 0; i < n; i++) t[(size_t)i * ny + j] = (double)(t[(size_t)i * ny + j] + off); }
  std::vector<char> miss((size_t)n * ny, 0);
  int nm = 0;
  if (n >= 5 && d.coin(50)) { int km = (int)d.i(1, std::max(1, n / 5)); for (int q = 0; q < km; q++) { int i = (int)d.i(2, n - 1), j = (int)d.i(0, ny - 1); if (!miss[(size_t)i * ny + j]) { miss[(size_t)i * ny + j] = 1; nm++; } } }
  c.p = {n, ny, nlv, perfect ? 1 : 0};
  for (int i = 0; i < n; i++) for (int j = 0; j < ny; j++) c.v.push_back(miss[(size_t)i * ny + j] ? MISS : t[(size_t)i * ny + j]);
  for (int i = 0; i < n; i++) for (int l = 0; l < nlv; l++) for (int j = 0; j < ny; j++)
    c.v.push_back(perfect ? t[(size_t)i * ny + j] : t[(size_t)i * ny + j] + e[((size_t)i * nlv + l) * ny + j]);
  c.nontrivial = n >= 10 || nm > 0;
  if (nm) c.tags.push_back("missing-truths");
  if (perfect) c.tags.push_back("perfect-prediction");
  if (lvl) c.tags.push_back("level>=1e2*spread");
  c.tags.push_back(fmt("scale=1e%d", k)); c.tags.push_back(fmt("ny=%d,nlv=%d", ny, nlv));
}
struct RegRef { ld r2, mse, rmse, mae, bias, tol_r2, tol_mse, tol_mae, tol_bias; };
static RegRef regref(const V &yt, const V &yp) {
  RegRef r{}; int n = 0; ld mu = 0, amax = 0;
  for (size_t i = 0; i < yt.size(); i++) if (!is_missing(yt[i])) { mu += yt[i]; n++; amax = std::max({amax, fabsl(yt[i]), fabsl(yp[i])}); }
  mu /= n;
  ld ssreg = 0, sstot = 0, sae = 0, syi = 0, sxi = 0, sayi = 0, saxi = 0;
  for (size_t i = 0; i < yt.size(); i++) if (!is_missing(yt[i])) {
    ld e = yp[i] - yt[i]; ssreg += e * e; sstot += (yt[i] - mu) * (yt[i] - mu); sae += fabsl(e);
    syi += yp[i] * (yt[i] - mu); sxi += yt[i] * (yt[i] - mu); sayi += fabsl(yp[i] * (yt[i] - mu)); saxi += fabsl(yt[i] * (yt[i] - mu));
  }
  r.mse = ssreg / n; r.rmse = sqrtl(r.mse); r.mae = sae / n; r.r2 = 1 - ssreg / sstot; r.bias = fabsl(1 - syi / sxi);
  ld u = 64 * (n + 2) * EPS;
  // differences yp - yt carry 2 eps * amax absolute error each
  ld de = 4 * EPS * amax;
  r.tol_mse = u * r.mse + (2 * sae * de + n * de * de) / n + 1e-300L;
  r.tol_mae = u * r.mae + de + 1e-300L;
  ld dmu = u * amax;
  ld dtot = u * sstot + 2 * dmu * sqrtl(sstot * n) + n * dmu * dmu;
  r.tol_r2 = (r.tol_mse * n) / sstot + (ssreg / sstot) * (dtot / sstot) + 8 * EPS * (1 + ssreg / sstot) + 1e-300L;
  // BIAS = |1 - slope|, slope = sum (yp - c)(yt - mean) / sum (yt - mean)^2 for ANY c: a sound evaluation centres both factors and
  // carries the rounding of each centred value (eps*amax + dmu) times the size of its partner - first order in level/spread,
  // not the (level/spread)^2 of the uncentred products
  (void)sayi; (void)saxi;
  ld dc = 4 * EPS * amax + dmu, sdev = 0, sprod = 0;
  for (size_t i = 0; i < yt.size(); i++) if (!is_missing(yt[i])) { sdev += fabsl(yt[i] - mu) + fabsl(yp[i] - mu); sprod += fabsl((yp[i] - mu) * (yt[i] - mu)); }
  ld dsyi = dc * sdev + u * sprod, dsxi = dc * 2 * sdev + u * sstot;
  r.tol_bias = dsyi / fabsl(sxi) + fabsl(syi / sxi) * dsxi / fabsl(sxi) + 8 * EPS * (1 + fabsl(syi / sxi)) + 1e-300L;
  return r;
}
static void pred_reg(const Case &c) {
  Reader rd(c);
  int n = (int)rd.i(), ny = (int)rd.i(), nlv = (int)rd.i(), perfect = (int)rd.i();
  M T = rd.mat(n, ny), Pm = rd.mat(n, nlv * ny);
  matrix *mt = to_lib(T), *mp = to_lib(Pm);
  matrix *cc, *rm, *bi; initMatrix(&cc); initMatrix(&rm); initMatrix(&bi);
  PLSRegressionStatistics(mt, mp, cc, rm, bi);
  VF_CHECK((int)cc->row == nlv && (int)cc->col == ny && (int)rm->row == nlv && (int)rm->col == ny && (int)bi->row == nlv && (int)bi->col == ny, "PLSRegressionStatistics table shapes");
  for (int l = 0; l < nlv; l++) for (int j = 0; j < ny; j++) {
    V yt(n), yp(n); for (int i = 0; i < n; i++) { yt[i] = T(i, j); yp[i] = Pm(i, ny * l + j); }
    RegRef r = regref(yt, yp);
    dvector *dt = to_lib(yt), *dp = to_lib(yp);
    double r2 = R2(dt, dp), mse = MSE(dt, dp), rmse = RMSE(dt, dp), mae = MAE(dt, dp), bias = BIAS(dt, dp);
    VF_CLOSE(mse, r.mse, r.tol_mse, "MSE");
    VF_CLOSE(rmse, r.rmse, r.rmse > 0 ? r.tol_mse / (2 * r.rmse) + 8 * EPS * r.rmse : sqrtl(r.tol_mse), "RMSE");
    VF_CLOSE(mae, r.mae, r.tol_mae, "MAE");
    VF_CLOSE(r2, r.r2, r.tol_r2, "R2");
    VF_CLOSE(bias, r.bias, r.tol_bias, "BIAS");
    VF_CHECK(r2 <= 1.0, "R2 = %.17g > 1", r2);
    VF_CHECK(fabsl((ld)rmse * rmse - mse) <= 8 * EPS * mse + 1e-300L, "RMSE^2 != MSE: %.17g vs %.17g", rmse * rmse, mse);
    VF_CHECK(mae <= rmse * (1 + 1e-12) + 1e-300, "MAE %.17g > RMSE %.17g", mae, rmse);
    if (perfect) VF_CHECK(r2 == 1.0 && mse == 0.0 && rmse == 0.0 && mae == 0.0, "perfect prediction: R2=%.17g MSE=%g RMSE=%g MAE=%g", r2, mse, rmse, mae);
    // the statistic tables are the scalar functions applied per (LV, response)
    VF_CLOSE(cc->data[l][j], r2, 1e-300L + 16 * EPS * fabsl((ld)r2), fmt("PLSRegressionStatistics R2 table [%d][%d]", l, j).c_str());
    VF_CLOSE(rm->data[l][j], rmse, 1e-300L + 16 * EPS * fabsl((ld)rmse), fmt("PLSRegressionStatistics RMSE table [%d][%d]", l, j).c_str());
    VF_CLOSE(bi->data[l][j], bias, 1e-300L + 16 * EPS * fabsl((ld)bias), fmt("PLSRegressionStatistics BIAS table [%d][%d]", l, j).c_str());
    DelDVector(&dt); DelDVector(&dp);
  }
  // MLR table (one prediction column per response): first LV block
  {
    M P1(n, ny); for (int i = 0; i < n; i++) for (int j = 0; j < ny; j++) P1(i, j) = Pm(i, j);
    matrix *p1 = to_lib(P1); dvector *a, *b, *cbi; initDVector(&a); initDVector(&b); initDVector(&cbi);
    MLRRegressionStatistics(mt, p1, a, b, cbi);
    VF_CHECK((int)a->size == ny && (int)b->size == ny && (int)cbi->size == ny, "MLRRegressionStatistics sizes");
    for (int j = 0; j < ny; j++) {
      VF_CLOSE(a->data[j], cc->data[0][j], 16 * EPS * fabsl((ld)cc->data[0][j]) + 1e-300L, "MLRRegressionStatistics R2");
      VF_CLOSE(b->data[j], rm->data[0][j], 16 * EPS * fabsl((ld)rm->data[0][j]) + 1e-300L, "MLRRegressionStatistics RMSE");
      VF_CLOSE(cbi->data[j], bi->data[0][j], 16 * EPS * fabsl((ld)bi->data[0][j]) + 1e-300L, "MLRRegressionStatistics BIAS");
    }
    DelMatrix(&p1); DelDVector(&a); DelDVector(&b); DelDVector(&cbi);
  }
  DelMatrix(&mt); DelMatrix(&mp); DelMatrix(&cc); DelMatrix(&rm); DelMatrix(&bi);
}

// ------------------------------------------------------------------------------------------------
static void gen_cls(Draw &d, Case &c) {
  int n = (int)d.sz(2, 200);
  // distinct scores: a random subset of a dyadic grid, then a random order
  auto key = d.ivec(n, 0, 1 << 20);
  std::vector<int> idx(n); for (int i = 0; i < n; i++) idx[i] = i;
  std::stable_sort(idx.begin(), idx.end(), [&](int a, int b) { return key[a] < key[b]; });
  auto gaps = d.ivec(n, 1, 40);
  std::vector<double> score(n); int64_t cur = -(int64_t)d.i(0, 2000);
  // "arbitrary score distributions": half of the cases rescale the scores by 1e-6..1e3 (distinct scores stay distinct; a ranking
  // that treats scores closer than some absolute threshold as equal shows on the small scales)
  double sscale = d.coin(50) ? 1.0 : std::pow(10.0, (double)d.i(-6, 3));
  for (int r = 0; r < n; r++) { cur += gaps[r]; score[idx[r]] = (double)cur / 16.0 * sscale; }
  if (sscale != 1.0) c.tags.push_back(fmt("score-scale=1e%d", (int)std::lround(std::log10(sscale))));
  auto lab = d.ivec(n, 0, 1);
  // correlate labels with scores in half of the cases
  if (d.coin(50)) { auto flip = d.ivec(n, 0, 99); for (int r = 0; r < n; r++) lab[idx[r]] = (r * 2 >= n) ^ (flip[r] < 25) ? 1 : 0; }
  lab[idx[0]] = d.coin(50); lab[idx[n - 1]] = 1 - lab[idx[0]];   // at least one of each
  int map = (int)d.i(0, 2);
  c.p = {n, map};
  for (int i = 0; i < n; i++) c.v.push_back((double)lab[i]);
  for (int i = 0; i < n; i++) c.v.push_back(score[i]);
  c.v.push_back(d.real(0.01, 100)); c.v.push_back(d.real(-1000, 1000));
  for (int i = n - 1; i > 0; i--) c.p.push_back(d.i(0, i));
  int npos = 0; for (int i = 0; i < n; i++) npos += (int)lab[i];
  c.nontrivial = n >= 10 && npos >= 3 && n - npos >= 3;
  c.tags.push_back(map == 0 ? "map=affine" : map == 1 ? "map=exp" : "map=cube");
}
static double lib_auc(const V &y, const V &s, M *curve = nullptr) {
  dvector *dy = to_lib(y), *ds = to_lib(s); matrix *roc; initMatrix(&roc); double auc = -1;
  ROC(dy, ds, roc, &auc);
  if (curve) *curve = from_lib(roc);
  DelDVector(&dy); DelDVector(&ds); DelMatrix(&roc);
  return auc;
}
static void pred_cls(const Case &c) {
  Reader rd(c);
  int n = (int)rd.i(), map = (int)rd.i();
  V y = rd.vec(n), s = rd.vec(n);
  double a = rd.d(), b = rd.d();
  std::vector<int> perm(n); for (int i = 0; i < n; i++) perm[i] = i; for (int i = n - 1; i > 0; i--) std::swap(perm[i], perm[(int)rd.i()]);
  int npos = 0; for (int i = 0; i < n; i++) npos += y[i] == 1; int nneg = n - npos;
  VF_CHECK(npos >= 1 && nneg >= 1, "generator: one class missing");
  long wins = 0; for (int i = 0; i < n; i++) if (y[i] == 1) for (int j = 0; j < n; j++) if (y[j] != 1 && s[i] > s[j]) wins++;
  ld mw = (ld)wins / ((ld)npos * nneg);
  M roc; double auc = lib_auc(y, s, &roc);
  VF_CHECK(roc.r == n + 1 && roc.c == 2, "ROC curve has %d x %d points for %d objects", roc.r, roc.c, n);
  VF_CHECK(roc(0, 0) == 0 && roc(0, 1) == 0, "ROC does not start at (0,0)");
  VF_CHECK(roc(n, 0) == 1 && roc(n, 1) == 1, "ROC does not end at (1,1): (%.17Lg, %.17Lg)", roc(n, 0), roc(n, 1));
  for (int i = 0; i < n; i++) VF_CHECK(roc(i + 1, 0) >= roc(i, 0) && roc(i + 1, 1) >= roc(i, 1), "ROC not monotone at point %d", i + 1);
  VF_CLOSE(auc, mw, 1e-12L, "AUC vs Mann-Whitney probability");
  // strictly increasing map of the scores
  ld smaxabs = 1e-300L; for (int i = 0; i < n; i++) smaxabs = std::max(smaxabs, fabsl(s[i]));
  V s2(n); for (int i = 0; i < n; i++) s2[i] = map == 0 ? (double)(a * s[i] + b) : map == 1 ? std::exp((double)(s[i] / smaxabs) * 6.0) : (double)(s[i] * s[i] * s[i]);
  bool mapok = true;   // rounding of the map may merge or swap two neighbours: then the relation says nothing and is skipped
  for (int i = 0; i < n && mapok; i++) for (int j = 0; j < i; j++) if ((s[i] < s[j]) != (s2[i] < s2[j]) || s2[i] == s2[j]) { mapok = false; break; }
  if (mapok) VF_CLOSE(lib_auc(y, s2), auc, 1e-12L, "AUC invariance under a strictly increasing map of the scores");
  else tag("monotone-map-skipped(rounding)");
  V yp(n), sp(n); for (int i = 0; i < n; i++) { yp[i] = y[perm[i]]; sp[i] = s[perm[i]]; }
  VF_CLOSE(lib_auc(yp, sp), auc, 1e-12L, "AUC invariance under reordering of the objects");
  V sn(n); for (int i = 0; i < n; i++) sn[i] = -s[i];
  VF_CLOSE(lib_auc(y, sn), 1 - (ld)auc, 1e-12L, "AUC of negated scores = 1 - AUC");
  // precision-recall
  {
    dvector *dy = to_lib(y), *ds = to_lib(s); matrix *pr; initMatrix(&pr); double ap = -1;
    PrecisionRecall(dy, ds, pr, &ap);
    VF_CHECK((int)pr->row == n + 1 && (int)pr->col == 2, "PR curve shape %s", dims(pr).c_str());
    for (int i = 0; i < n; i++) VF_CHECK(pr->data[i + 1][0] >= pr->data[i][0], "recall decreases at point %d", i + 1);
    VF_CHECK(pr->data[n][0] == 1.0, "recall ends at %.17g", pr->data[n][0]);
    for (int i = 0; i <= n; i++) VF_CHECK(pr->data[i][1] >= 0 && pr->data[i][1] <= 1, "precision outside [0,1]");
    VF_CHECK(ap >= 0 && ap <= 1 + 1e-12, "PR area %.17g outside [0,1]", ap);
    // definition: trapezoid over (recall, precision) with precision = tp/(tp+fp) in descending score order
    std::vector<int> ord(n); for (int i = 0; i < n; i++) ord[i] = i; std::sort(ord.begin(), ord.end(), [&](int u, int v) { return s[u] > s[v]; });
    ld area = 0, pr0 = 0, pp0 = 1; int tp = 0, fp = 0;
    for (int r = 0; r < n; r++) { if (y[ord[r]] == 1) tp++; else fp++; ld rec = (ld)tp / npos, prec = (ld)tp / (tp + fp); area += (rec - pr0) * (prec + pp0) / 2; pr0 = rec; pp0 = prec; }
    VF_CLOSE(ap, area, 1e-12L, "precision-recall area vs definition");
    // PLS-DA statistics: same figures per column
    M Yt(n, 1), Ys(n, 1); for (int i = 0; i < n; i++) { Yt(i, 0) = y[i]; Ys(i, 0) = s[i]; }
    matrix *myt = to_lib(Yt), *mys = to_lib(Ys), *aucm, *apm; initMatrix(&aucm); initMatrix(&apm);
    tensor *troc, *tpr; initTensor(&troc); initTensor(&tpr);
    PLSDiscriminantAnalysisStatistics(myt, mys, troc, aucm, tpr, apm);
    VF_CHECK((int)aucm->row == 1 && (int)aucm->col == 1 && (int)apm->row == 1 && (int)apm->col == 1, "PLSDiscriminantAnalysisStatistics table shapes");
    VF_CLOSE(aucm->data[0][0], auc, 1e-15L, "PLSDiscriminantAnalysisStatistics AUC vs ROC()");
    VF_CLOSE(apm->data[0][0], ap, 1e-15L, "PLSDiscriminantAnalysisStatistics AP vs PrecisionRecall()");
    // the curves stored per latent variable are the curves ROC() / PrecisionRecall() return: n+1 points, from (0,0) to (1,1) / recall 1
    VF_CHECK(troc->order == 1 && tpr->order == 1, "PLSDiscriminantAnalysisStatistics stored %zu ROC / %zu PR blocks for one latent variable", troc->order, tpr->order);
    VF_CHECK((int)troc->m[0]->row == n + 1 && (int)troc->m[0]->col == 2, "PLSDiscriminantAnalysisStatistics: stored ROC curve has %s points for %d objects (ROC() returns %d)", dims(troc->m[0]).c_str(), n, n + 1);
    VF_CHECK((int)tpr->m[0]->row == n + 1 && (int)tpr->m[0]->col == 2, "PLSDiscriminantAnalysisStatistics: stored PR curve has %s points for %d objects", dims(tpr->m[0]).c_str(), n);
    for (int i = 0; i <= n; i++) {
      VF_CHECK(troc->m[0]->data[i][0] == (double)roc(i, 0) && troc->m[0]->data[i][1] == (double)roc(i, 1), "PLSDiscriminantAnalysisStatistics: stored ROC point %d differs from ROC()", i);
      VF_CHECK(tpr->m[0]->data[i][0] == pr->data[i][0] && tpr->m[0]->data[i][1] == pr->data[i][1], "PLSDiscriminantAnalysisStatistics: stored PR point %d differs from PrecisionRecall()", i);
    }
    DelMatrix(&myt); DelMatrix(&mys); DelMatrix(&aucm); DelMatrix(&apm); DelTensor(&troc); DelTensor(&tpr);
    DelDVector(&dy); DelDVector(&ds); DelMatrix(&pr);
  }
}

Property &vf::property() {
  static Property p{
      "C15",
      "regression: truth/prediction vectors of length 2..200 at scales 1e-6..1e6, 1..3 responses x 1..3 LV blocks, up to 20 % MISSING-coded "
      "truths, 10 % perfect predictions; classification: length 2..200, both classes present, scores distinct by construction (dyadic grid), "
      "strictly increasing maps (affine, exp, cube), random reordering, negation. Oracle: definitions in long double with forward error "
      "bounds; Mann-Whitney count as an exact rational (1e-12). Non-trivial: length >= 10 with both classes >= 3, or missing truths present.",
      {
          {"regression", gen_reg, pred_reg, 4000, 30000, 100},
          {"classification", gen_cls, pred_cls, 4000, 30000, 100},
      }};
  return p;
}
