#!/usr/bin/env python3
"""Generates layout.c from the typedef structs of the current headers: sizeof and, per member in declaration order,
name / offsetof / sizeof / pointer depth / base type.  (The member list is taken from the header text only to be able to
ask the COMPILER for the layout; the comparison itself is on compiled sizeof/offsetof values.)"""
import re, sys, os
src = sys.argv[1]; out = sys.argv[2]
STRUCTS = {"matrix": "matrix.h", "dvector": "vector.h", "strvector": "vector.h", "uivector": "vector.h", "ivector": "vector.h",
           "tensor": "tensor.h", "dvectorlist": "list.h", "PCAMODEL": "pca.h", "PLSMODEL": "pls.h", "CPCAMODEL": "cpca.h"}
def strip_comments(t):
    t = re.sub(r"/\*.*?\*/", " ", t, flags=re.S); return re.sub(r"//[^\n]*", " ", t)
code = ['#include <stddef.h>', '#include <string.h>']
for h in sorted(set(STRUCTS.values())): code.append('#include "%s"' % h)
code.append("struct vd_member { const char *name; size_t off, size; int depth; const char *base; };")
table = []
for name, hdr in STRUCTS.items():
    text = strip_comments(open(os.path.join(src, hdr)).read())
    m = re.search(r"typedef\s+struct\s*(?:\w+\s*)?\{([^}]*)\}\s*%s\s*;" % re.escape(name), text)   # an optional struct tag is the same type
    if not m: raise SystemExit("cannot find typedef struct %s in %s" % (name, hdr))
    members = []
    for decl in m.group(1).split(";"):
        decl = decl.strip()
        if not decl: continue
        mm = re.match(r"^(.*?)([\w\s\*,]+)$", decl)
        base = re.match(r"^\s*((?:unsigned\s+|struct\s+)?\w+)", decl).group(1).strip()
        rest = decl[len(re.match(r"^\s*((?:unsigned\s+|struct\s+)?\w+)", decl).group(0)):]
        for item in rest.split(","):
            item = item.strip(); depth = item.count("*"); mname = item.replace("*", "").strip()
            members.append((mname, depth, base))
    code.append("static const struct vd_member vd_m_%s[] = {" % name)
    for mname, depth, base in members:
        code.append('  {"%s", offsetof(%s, %s), sizeof(((%s*)0)->%s), %d, "%s"},' % (mname, name, mname, name, mname, depth, base))
    code.append("};")
    table.append((name, len(members)))
code.append("size_t vd_layout(const char *s, int i, char *name, size_t *off, size_t *size, int *depth, char *base){")
for name, n in table:
    code.append('  if(!strcmp(s,"%s")){ if(i < 0) return sizeof(%s); if(i >= %d) return 0; const struct vd_member *m=&vd_m_%s[i]; strcpy(name,m->name); *off=m->off; *size=m->size; *depth=m->depth; strcpy(base,m->base); return %d; }' % (name, name, n, name, n))
code.append("  return (size_t)-1; }")
open(out, "w").write("\n".join(code) + "\n")
