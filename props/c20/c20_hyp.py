#!/usr/bin/env python3
"""C20 worker (runs under python3-vt): Hypothesis-driven differential between the repository's Python package and the same
calls made from C (libverifdump.so), plus the compiled layout table of the mirrored structures.

  c20_hyp.py --lib libscientific.so --dump libverifdump.so --seed N --count N --out stats.json --work dir [--only sub]
  c20_hyp.py ... --replay example.json
"""
import sys, os, json, ctypes, types, argparse, hashlib, math, time

ap = argparse.ArgumentParser()
ap.add_argument("--lib"); ap.add_argument("--dump"); ap.add_argument("--seed", type=int, default=1); ap.add_argument("--count", type=int, default=30)
ap.add_argument("--budget", type=float, default=0.0); ap.add_argument("--out"); ap.add_argument("--work"); ap.add_argument("--only", default=""); ap.add_argument("--replay", default=""); ap.add_argument("--pkg", default="/repo/src/python_bindings")
A = ap.parse_args()

_lib = ctypes.CDLL(A.lib, mode=ctypes.RTLD_GLOBAL)
fake = types.ModuleType("libscientific.loadlibrary")
fake.load_libscientific_library = lambda: _lib
sys.modules["libscientific.loadlibrary"] = fake
sys.path.insert(0, A.pkg)
import libscientific                      # the repository's package, bound to the library built from the current tree
from libscientific import matrix as mx, vector as vect, tensor as tns, vectlist as vlst, pca, pls, cpca, clustering, interpolate
VD = ctypes.CDLL(A.dump)

c_dp = ctypes.POINTER(ctypes.c_double); c_sp = ctypes.POINTER(ctypes.c_size_t)
def darr(x): return (ctypes.c_double * max(1, len(x)))(*x)
def sarr(x): return (ctypes.c_size_t * max(1, len(x)))(*x)
def flat(m): return [float(v) for r in m for v in r]

class Mismatch(AssertionError): pass
def need(cond, msg):
    if not cond: raise Mismatch(msg)
def close(a, b, what, tol=1e-12):
    need(len(a) == len(b), "%s: %d values from Python, %d from C" % (what, len(a), len(b)))
    for i, (x, y) in enumerate(zip(a, b)):
        ok = (x == y) or (isinstance(x, float) and isinstance(y, float) and (math.isnan(x) and math.isnan(y) or abs(x - y) <= tol * (abs(y) + 1e-300) + 1e-300))
        need(ok, "%s: element %d is %r through the Python bindings, %r from C" % (what, i, x, y))

# ---------------------------------------------------------------- layout table (compiled sizeof / offsetof)
PYSTRUCTS = {"matrix": mx.MATRIX, "dvector": vect.DVECTOR, "strvector": vect.STRVECTOR, "uivector": vect.UIVECTOR, "ivector": vect.IVECTOR,
             "tensor": tns.TENSOR, "dvectorlist": vlst.DVECTLIST, "PCAMODEL": pca.PCAMODEL, "PLSMODEL": pls.PLSMODEL, "CPCAMODEL": cpca.CPCAMODEL}
CNAME = {v: k for k, v in PYSTRUCTS.items()}
def pykind(t):
    depth = 0
    while hasattr(t, "_type_") and not isinstance(t._type_, str): t = t._type_; depth += 1
    if t in CNAME: return depth, CNAME[t]
    return depth, {ctypes.c_double: "double", ctypes.c_size_t: "size_t", ctypes.c_int: "int", ctypes.c_char: "char", ctypes.c_ulong: "size_t"}.get(t, getattr(t, "__name__", str(t)))
def check_layout():
    VD.vd_layout.restype = ctypes.c_size_t
    nfields = 0
    for cname, cls in PYSTRUCTS.items():
        csize = VD.vd_layout(cname.encode(), -1, None, None, None, None, None)
        need(csize != ctypes.c_size_t(-1).value, "structure %s unknown to the C side" % cname)
        need(ctypes.sizeof(cls) == csize, "ctypes.sizeof(%s) = %d but the C compiler says sizeof(%s) = %d" % (cls.__name__, ctypes.sizeof(cls), cname, csize))
        i = 0
        while True:
            name = ctypes.create_string_buffer(128); base = ctypes.create_string_buffer(128); off = ctypes.c_size_t(); size = ctypes.c_size_t(); depth = ctypes.c_int()
            n = VD.vd_layout(cname.encode(), i, name, ctypes.byref(off), ctypes.byref(size), ctypes.byref(depth), base)
            if n == 0: break
            need(len(cls._fields_) == n, "%s declares %d fields, the C structure %s has %d members" % (cls.__name__, len(cls._fields_), cname, n))
            fname, ftype = cls._fields_[i][0], cls._fields_[i][1]
            fd = getattr(cls, fname)
            need(fd.offset == off.value and fd.size == size.value, "%s.%s (field %d) at offset %d size %d, C member %s.%s at offset %d size %d" % (cls.__name__, fname, i, fd.offset, fd.size, cname, name.value.decode(), off.value, size.value))
            # same member under the same name (the bindings read C members by position: a renamed or swapped pair of members of
            # equal type is invisible to offsets and sizes); the only spelling difference in the package is DVECTLIST.dvector for d
            alias = {("dvectorlist", "dvector"): "d"}
            need(alias.get((cname, fname), fname) == name.value.decode(), "%s field %d is called %s in the Python declaration, the C structure %s has %s at that position" % (cls.__name__, i, fname, cname, name.value.decode()))
            pd, pb = pykind(ftype)
            need(pd == depth.value and pb == base.value.decode(), "%s.%s declared as %s%s, C member %s.%s is %s%s" % (cls.__name__, fname, pb, "*" * pd, cname, name.value.decode(), base.value.decode(), "*" * depth.value))
            i += 1; nfields += 1
    return nfields

# ---------------------------------------------------------------- live-object dumps through C
def c_matrix(ptr, cap=4096):
    dims = sarr([0, 0]); out = darr([0.0] * cap); VD.vd_dump_matrix(ptr, dims, out, ctypes.c_size_t(cap)); return [dims[0], dims[1]], list(out[: dims[0] * dims[1]])
def c_dvector(ptr, cap=4096):
    dims = sarr([0]); out = darr([0.0] * cap); VD.vd_dump_dvector(ptr, dims, out, ctypes.c_size_t(cap)); return dims[0], list(out[: dims[0]])
def py_matrix(ptr):
    c = ptr.contents; return [c.row, c.col], [c.data[i][j] for i in range(c.row) for j in range(c.col)]
def py_dvector(ptr):
    c = ptr.contents; return c.size, [c.data[i] for i in range(c.size)]
def same_matrix(ptr, what):
    a, b = py_matrix(ptr), c_matrix(ptr); need(a[0] == b[0], "%s: Python reads shape %s, C sees %s" % (what, a[0], b[0])); close(a[1], b[1], what, 0)
def same_dvector(ptr, what):
    a, b = py_dvector(ptr), c_dvector(ptr); need(a[0] == b[0], "%s: Python reads size %d, C sees %d" % (what, a[0], b[0])); close(a[1], b[1], what, 0)

# ---------------------------------------------------------------- sub-properties: run(example dict)
def run_containers(ex):
    m = mx.Matrix(ex["m"]) if ex["m"] and ex["m"][0] else None
    if m is not None:
        need(m.tolist() == ex["m"], "Matrix round trip through the bindings"); need(m.nrow() == len(ex["m"]) and m.ncol() == len(ex["m"][0]), "Matrix shape")
        same_matrix(m.mtx, "matrix created by the package")
        m.appendrow(ex["row"][: m.ncol()] + [0.0] * max(0, m.ncol() - len(ex["row"])))
        same_matrix(m.mtx, "matrix after appendrow"); need(m.nrow() == len(ex["m"]) + 1, "appendrow row count")
        m[0, 0] = 42.5; need(m[0, 0] == 42.5, "matrix item set/get"); same_matrix(m.mtx, "matrix after setitem")
        r, c = m.nrow(), m.ncol(); tr = darr([0.0] * (r * c)); mv = darr([0.0] * r); vm = darr([0.0] * c); v = [ex["row"][j % len(ex["row"])] for j in range(max(c, 1))]
        VD.vd_matops(darr(flat(m.tolist())), ctypes.c_size_t(r), ctypes.c_size_t(c), darr(v), mv, vm, tr)
        m.transpose(); close(flat(m.tolist()), list(tr[: r * c]), "Matrix.transpose vs MatrixTranspose from C")
    d = vect.DVector(ex["v"]); need(d.tolist() == ex["v"] and d.size() == len(ex["v"]), "DVector round trip"); same_dvector(d.dvect, "dvector created by the package")
    d.append(1.25); need(d.tolist() == ex["v"] + [1.25], "DVector.append"); same_dvector(d.dvect, "dvector after append")
    u = vect.UIVector(ex["u"]); need(u.tolist() == ex["u"], "UIVector round trip")
    dims = sarr([0]); out = sarr([0] * 64); VD.vd_dump_uivector(u.uivect, dims, out, ctypes.c_size_t(64)); need(dims[0] == len(ex["u"]) and list(out[: dims[0]]) == ex["u"], "uivector as seen from C")
    iv = vect.new_ivector(ex["i"]); dims = sarr([0]); iout = (ctypes.c_int * 64)(); VD.vd_dump_ivector(iv, dims, iout, ctypes.c_size_t(64)); need(dims[0] == len(ex["i"]) and list(iout[: dims[0]]) == ex["i"] and vect.ivector_tolist(iv) == ex["i"], "ivector as seen from C"); vect.del_ivector(iv)
    t = tns.Tensor(ex["t"]); need(t.tolist() == ex["t"] and t.order() == len(ex["t"]), "Tensor round trip")
    dims = sarr([0] * 16); out = darr([0.0] * 4096); VD.vd_dump_tensor(t.tns, dims, out, ctypes.c_size_t(4096))
    need(dims[0] == len(ex["t"]), "tensor order as seen from C"); k = 0
    for b, blk in enumerate(ex["t"]):
        need(dims[1 + 2 * b] == len(blk) and dims[2 + 2 * b] == len(blk[0]), "tensor block %d shape as seen from C" % b); close(list(out[k: k + len(blk) * len(blk[0])]), flat(blk), "tensor block %d" % b, 0); k += len(blk) * len(blk[0])
    l = vlst.DVectorList(ex["l"]); need(l.tolist() == ex["l"] and l.size() == len(ex["l"]), "DVectorList round trip")
    dims = sarr([0] * 16); out = darr([0.0] * 1024); VD.vd_dump_dvlist(l.dvl, dims, out, ctypes.c_size_t(1024)); need(dims[0] == len(ex["l"]) and [dims[1 + i] for i in range(dims[0])] == [len(x) for x in ex["l"]], "dvectorlist as seen from C")
    close(list(out[: sum(len(x) for x in ex["l"])]), [v for x in ex["l"] for v in x], "dvectorlist values", 0)
    return False

def run_pca(ex):
    X, N, sc, npc = ex["x"], ex["xnew"], ex["scaling"], ex["npc"]; n, p = len(X), len(X[0])
    model = pca.PCA(scaling=sc, npc=npc); model.fit(X)
    dims = sarr([0] * 8); nstat = sarr([0, 0]); S = darr([0.0] * (n * p)); L = darr([0.0] * (p * p)); V = darr([0.0] * p); P = darr([0.0] * (len(N) * p)); ca = darr([0.0] * p); cs = darr([0.0] * p)
    VD.vd_pca(darr(flat(X)), ctypes.c_size_t(n), ctypes.c_size_t(p), ctypes.c_int(sc), ctypes.c_size_t(npc), darr(flat(N)), ctypes.c_size_t(len(N)), dims, S, L, V, P, ca, cs, nstat)
    k = dims[1]
    close(flat(model.get_scores()), list(S[: n * k]), "PCA scores"); close(flat(model.get_loadings()), list(L[: p * k]), "PCA loadings"); close(list(model.get_exp_variance()), list(V[: dims[4]]), "PCA explained variance")
    close(flat(model.predict(N)), list(P[: dims[5] * dims[6]]), "PCA.predict vs PCAScorePredictor from C")
    mc = model.model.contents
    for f, what in ((mc.scores, "scores"), (mc.loadings, "loadings"), (mc.dmodx, "dmodx")): same_matrix(f, "PCAMODEL.%s read through _fields_" % what)
    for f, what, ref, nn in ((mc.varexp, "varexp", V, dims[4]), (mc.colaverage, "colaverage", ca, nstat[0]), (mc.colscaling, "colscaling", cs, nstat[1])):
        same_dvector(f, "PCAMODEL.%s read through _fields_" % what); close(py_dvector(f)[1], list(ref[:nn]), "PCAMODEL.%s vs the model fitted from C" % what)
    rec = model.reconstruct_original_matrix()
    need(len(rec) == n and len(rec[0]) == p, "reconstruct_original_matrix shape")
    return k >= 2

def run_pls(ex):
    X, Y, N, nlv, xs, ys = ex["x"], ex["y"], ex["xnew"], ex["nlv"], ex["xs"], ex["ys"]; n, p, ny = len(X), len(X[0]), len(Y[0])
    model = pls.PLS(nlv=nlv, xscaling=xs, yscaling=ys); model.fit(X, Y)
    dims = sarr([0] * 8); nstat = sarr([0] * 4); cap = n * max(p, ny) * 8 + 64
    T = darr([0.0] * cap); U = darr([0.0] * cap); PL = darr([0.0] * cap); Q = darr([0.0] * cap); W = darr([0.0] * cap); B = darr([0.0] * 16); XV = darr([0.0] * 16); BT = darr([0.0] * 64); PR = darr([0.0] * cap)
    xa = darr([0.0] * 16); xsc = darr([0.0] * 16); ya = darr([0.0] * 16); ysc = darr([0.0] * 16)
    VD.vd_pls(darr(flat(X)), darr(flat(Y)), ctypes.c_size_t(n), ctypes.c_size_t(p), ctypes.c_size_t(ny), ctypes.c_size_t(nlv), ctypes.c_int(xs), ctypes.c_int(ys), darr(flat(N)), ctypes.c_size_t(len(N)),
              dims, T, U, PL, Q, W, B, XV, BT, PR, xa, xsc, ya, ysc, nstat)
    k = dims[1]
    close(flat(model.get_tscores()), list(T[: n * k]), "PLS t scores"); close(flat(model.get_uscores()), list(U[: n * k]), "PLS u scores"); close(flat(model.get_ploadings()), list(PL[: p * k]), "PLS p loadings")
    close(flat(model.get_qloadings()), list(Q[: ny * k]), "PLS q loadings"); close(flat(model.get_weights()), list(W[: p * k]), "PLS weights"); close(list(model.get_exp_variance()), list(XV[:k]), "PLS x explained variance")
    close(list(model.get_x_averages()), list(xa[: nstat[0]]), "PLS x averages"); close(list(model.get_x_column_scaling()), list(xsc[: nstat[1]]), "PLS x scalings"); close(list(model.get_y_averages()), list(ya[: nstat[2]]), "PLS y averages"); close(list(model.get_y_column_scaling()), list(ysc[: nstat[3]]), "PLS y scalings")
    close(list(model.get_beta_coefficients(k)), list(BT[: dims[7]]), "PLS beta coefficients")
    pr = model.predict(N)     # all latent variables
    close(flat(pr[0]), list(PR[: dims[5] * dims[6]]), "PLS.predict vs PLSYPredictorAllLV from C")
    # predict with a given number of latent variables: the block of that latent variable (one value per response) of the same table
    nr, ncol = dims[5], dims[6]
    for a_ in range(1, k + 1):
        pa = model.predict(N, nlv_=a_)[0]
        ref = [PR[r_ * ncol + (a_ - 1) * ny + j_] for r_ in range(nr) for j_ in range(ny)]
        need(len(pa) == nr and all(len(row) == ny for row in pa), "PLS.predict(x, nlv_=%d) returned %d x %d values for %d objects and %d responses" % (a_, len(pa), len(pa[0]) if pa else 0, nr, ny))
        close(flat(pa), ref, "PLS.predict(x, nlv_=%d) vs the %d-LV block of PLSYPredictorAllLV from C" % (a_, a_))
    # the low-level wrappers of the same calls
    xs_ = mx.new_matrix(N); sc_ = mx.init_matrix(); pls.pls_score_predictor(xs_, model.model, k, sc_)
    py_ = mx.init_matrix(); pls.pls_y_predictor(sc_, model.model, k, py_)
    close(flat(mx.matrix_to_list(py_)), [PR[r_ * ncol + (k - 1) * ny + j_] for r_ in range(nr) for j_ in range(ny)], "pls_y_predictor vs PLSYPredictorAllLV from C")
    for o_ in (xs_, sc_, py_): mx.del_matrix(o_)
    mc = model.model.contents
    for name in ("xscores", "xloadings", "xweights", "yscores", "yloadings", "recalculated_y", "recalc_residuals"): same_matrix(getattr(mc, name), "PLSMODEL.%s read through _fields_" % name)
    for name in ("b", "xvarexp", "xcolaverage", "xcolscaling", "ycolaverage", "ycolscaling"): same_dvector(getattr(mc, name), "PLSMODEL.%s read through _fields_" % name)
    close(py_dvector(mc.b)[1], list(B[:k]), "PLSMODEL.b vs the model fitted from C")
    return k >= 2

def run_cpca(ex):
    blocks, sc, npc = ex["blocks"], ex["scaling"], ex["npc"]; n = len(blocks[0]); w = [len(b[0]) for b in blocks]; nb = len(blocks)
    model = cpca.CPCA(scaling=sc, npc=npc); model.fit(blocks)
    dims = sarr([0] * 12); cap = n * sum(w) * 8 + 256
    SS = darr([0.0] * cap); SW = darr([0.0] * cap); TV = darr([0.0] * 16); BS = darr([0.0] * cap); BL = darr([0.0] * cap); BE = darr([0.0] * cap); PR = darr([0.0] * cap)
    VD.vd_cpca(darr([v for b in blocks for v in flat(b)]), ctypes.c_size_t(n), ctypes.c_size_t(nb), sarr(w), ctypes.c_int(sc), ctypes.c_size_t(npc), dims, SS, SW, TV, BS, BL, BE, PR)
    k = dims[1]
    close(flat(model.get_super_scores()), list(SS[: n * k]), "CPCA super scores"); close(flat(model.get_super_weights()), list(SW[: dims[2] * dims[3]]), "CPCA super weights"); close(list(model.get_total_exp_variance()), list(TV[: dims[4]]), "CPCA total explained variance")
    close([v for b in model.get_block_scores() for v in flat(b)], list(BS[: dims[5] * n * nb]), "CPCA block scores"); close([v for b in model.get_block_loadings() for v in flat(b)], list(BL[: sum(w) * k]), "CPCA block loadings")
    close([v for b in model.get_block_expvar() for v in b], list(BE[: dims[7] * nb]), "CPCA block explained variance")
    ps = model.predict(blocks); close(flat(ps[0]), list(PR[: dims[8] * dims[9]]), "CPCA.predict vs CPCAScorePredictor from C")
    mc = model.model.contents
    same_matrix(mc.super_scores, "CPCAMODEL.super_scores read through _fields_"); same_matrix(mc.super_weights, "CPCAMODEL.super_weights read through _fields_"); same_dvector(mc.scaling_factor, "CPCAMODEL.scaling_factor"); same_dvector(mc.total_expvar, "CPCAMODEL.total_expvar")
    return k >= 2

def run_select(ex):
    X, nsel = ex["x"], ex["nsel"]; n, p = len(X), len(X[0])
    a = clustering.most_descriptive_compound(X, nsel); b = clustering.max_dissimilarity_selection(X, nsel)
    ma = sarr([0] * nsel); mb = sarr([0] * nsel); VD.vd_select(darr(flat(X)), ctypes.c_size_t(n), ctypes.c_size_t(p), ctypes.c_size_t(nsel), ctypes.c_size_t(os.cpu_count()), ma, mb)
    need(list(a) == list(ma[:nsel]), "most_descriptive_compound %r vs MDC from C %r" % (a, list(ma[:nsel]))); need(list(b) == list(mb[:nsel]), "max_dissimilarity_selection %r vs MaxDis_Fast from C %r" % (b, list(mb[:nsel])))
    # the same selections with a Matrix object instead of a list
    Xm = mx.Matrix(X)
    a2 = clustering.most_descriptive_compound(Xm, nsel); b2 = clustering.max_dissimilarity_selection(Xm, nsel)
    need(list(a2) == list(a) and list(b2) == list(b), "selection from a Matrix object differs from the selection from the same data as a list")
    km = clustering.k_means_plus_plus(X, min(2, n)); need(len(km) == n and all(0 <= int(v) < 2 for v in km), "k_means_plus_plus labels")
    return nsel >= 3

def run_spline(ex):
    xy, q = ex["xy"], ex["q"]
    s = interpolate.CubicSplineInterpolation(); s.fit(xy); yp = s.predict(q)
    out = darr([0.0] * len(q)); VD.vd_spline(darr(flat(xy)), ctypes.c_size_t(len(xy)), darr(q), ctypes.c_size_t(len(q)), out)
    close([float(v) for v in yp], list(out[: len(q)]), "CubicSplineInterpolation.predict vs cubic_spline_predict from C")
    return len(xy) >= 4

def run_wrappers(ex):
    """low-level wrappers called directly with generated arguments; references computed in Python"""
    A, B, v = ex["a"], ex["b"], ex["v"]; r, c = len(A), len(A[0]); c2 = len(B[0])
    ma = mx.new_matrix(A); mb = mx.new_matrix(B)
    res = mx.new_matrix([[0.0] * c2 for _ in range(r)]); mx.matrix_dot_product(ma, mb, res)
    ref = [[sum(A[i][k] * B[k][j] for k in range(c)) for j in range(c2)] for i in range(r)]
    close(flat(mx.matrix_to_list(res)), flat(ref), "matrix_dot_product", 1e-9)
    dv = vect.new_dvector(v[:c]); out = vect.new_dvector([0.0] * r); mx.matrix_dvector_dot_product(ma, dv, out)
    close(vect.dvector_tolist(out), [sum(A[i][j] * v[j] for j in range(c)) for i in range(r)], "matrix_dvector_dot_product", 1e-9)
    out2 = vect.new_dvector([0.0] * r); mx.mt_matrix_dvector_dot_product(ma, dv, out2); close(vect.dvector_tolist(out2), vect.dvector_tolist(out), "mt_matrix_dvector_dot_product vs single thread", 1e-12)
    dw = vect.new_dvector((v * 3)[:r]); out3 = vect.new_dvector([0.0] * c); mx.dvector_matrix_dot_product(ma, dw, out3)
    close(vect.dvector_tolist(out3), [sum(A[i][j] * (v * 3)[i] for i in range(r)) for j in range(c)], "dvector_matrix_dot_product", 1e-9)
    op = mx.new_matrix([[0.0] * c for _ in range(r)]); mx.row_col_outer_product(dw, dv, op)
    close(flat(mx.matrix_to_list(op)), [(v * 3)[i] * v[j] for i in range(r) for j in range(c)], "row_col_outer_product", 1e-12)
    need(mx.get_matrix_value(ma, r - 1, c - 1) == A[r - 1][c - 1], "get_matrix_value"); mx.set_matrix_value(ma, 0, 0, -7.5); need(mx.get_matrix_value(ma, 0, 0) == -7.5, "set_matrix_value")
    need(list(mx.get_matrix_row(ma, r - 1)) == [A[r - 1][j] if (r - 1, j) != (0, 0) else -7.5 for j in range(c)], "get_matrix_row"); need(list(mx.get_matrix_column(ma, c - 1)) == [A[i][c - 1] if (i, c - 1) != (0, 0) else -7.5 for i in range(r)], "get_matrix_column")
    mc = mx.init_matrix(); mx.matrix_copy(ma, mc); need(mx.matrix_to_list(mc) == mx.matrix_to_list(ma), "matrix_copy"); mx.matrix_set(mc, 2.5); need(set(flat(mx.matrix_to_list(mc))) == {2.5}, "matrix_set")
    mx.resize_matrix(mc, 2, 3); need(mx.matrix_to_list(mc) == [[0.0] * 3, [0.0] * 3], "resize_matrix")
    # square, well conditioned: inversion round trip through the bindings
    n = min(r, c); S = [[(A[i][j] if i != j else abs(A[i][j]) + 50.0 * n) for j in range(n)] for i in range(n)]
    ms = mx.new_matrix(S); mi = mx.init_matrix(); mx.matrix_inversion(ms, mi); I = mx.matrix_to_list(mi)
    prod = [[sum(S[i][k] * I[k][j] for k in range(n)) for j in range(n)] for i in range(n)]
    need(all(abs(prod[i][j] - (1.0 if i == j else 0.0)) < 1e-8 for i in range(n) for j in range(n)), "matrix_inversion through the bindings: S * S^-1 is not the identity")
    # vectors
    d = vect.new_dvector(v); need(vect.get_dvector_value(d, len(v) - 1) == v[-1], "get_dvector_value"); vect.set_dvector_value(d, 0, 9.5); need(vect.dvector_tolist(d)[0] == 9.5, "set_dvector_value")
    vect.dvector_append(d, 3.25); need(vect.dvector_tolist(d)[-1] == 3.25 and len(vect.dvector_tolist(d)) == len(v) + 1, "dvector_append")
    vect.dvector_remove_at(d, 0); need(vect.dvector_tolist(d) == v[1:] + [3.25], "dvector_remove_at")
    dc = vect.dvector_copy(d); need(vect.dvector_tolist(dc) == vect.dvector_tolist(d), "dvector_copy")
    vect.dvector_set(dc, 1.5); need(set(vect.dvector_tolist(dc)) == {1.5} and vect.dvector_tolist(d) == v[1:] + [3.25], "dvector_set / deep copy")
    vect.dvector_resize(dc, 3); need(vect.dvector_tolist(dc) == [0.0] * 3, "dvector_resize")
    # integer containers over the FULL width of their element type (size_t / int): a return or parameter declared with another
    # width or signedness only shows on values beyond 2^31
    if "ubig" in ex:
        ub = vect.new_uivector(ex["ubig"])
        for k_, val_ in enumerate(ex["ubig"]): need(vect.get_uivector_value(ub, k_) == val_, "get_uivector_value(%d) = %r but %r was stored" % (k_, vect.get_uivector_value(ub, k_), val_))
        need(vect.uivector_tolist(ub) == ex["ubig"], "uivector_tolist over the full size_t range")
        vect.set_uivector_value(ub, 0, ex["ubig"][-1]); need(vect.get_uivector_value(ub, 0) == ex["ubig"][-1], "set_uivector_value / get_uivector_value of %r" % ex["ubig"][-1])
        vect.uivector_append(ub, ex["ubig"][0]); need(vect.uivector_tolist(ub)[-1] == ex["ubig"][0], "uivector_append of %r" % ex["ubig"][0])
        dims = sarr([0]); out_ = sarr([0] * 64); VD.vd_dump_uivector(ub, dims, out_, ctypes.c_size_t(64)); need(list(out_[: dims[0]]) == vect.uivector_tolist(ub), "uivector (full range) as seen from C")
        vect.del_uivector(ub)
        ib = vect.new_ivector(ex["ibig"])
        for k_, val_ in enumerate(ex["ibig"]): need(vect.get_ivector_value(ib, k_) == val_, "get_ivector_value(%d) = %r but %r was stored" % (k_, vect.get_ivector_value(ib, k_), val_))
        need(vect.ivector_tolist(ib) == ex["ibig"], "ivector_tolist over the full int range")
        vect.set_ivector_value(ib, 0, ex["ibig"][-1]); need(vect.ivector_tolist(ib)[0] == ex["ibig"][-1], "set_ivector_value of %r" % ex["ibig"][-1])
        vect.ivector_append(ib, ex["ibig"][0]); need(vect.ivector_tolist(ib)[-1] == ex["ibig"][0], "ivector_append of %r" % ex["ibig"][0])
        vect.del_ivector(ib)
    u = vect.new_uivector(ex["u"]); vect.uivector_append(u, 77); need(vect.uivector_tolist(u) == ex["u"] + [77], "uivector_append"); vect.set_uivector_value(u, 0, 5); need(vect.get_uivector_value(u, 0) == 5, "set/get_uivector_value")
    vect.uivector_remove_at(u, 0); need(vect.uivector_tolist(u) == ex["u"][1:] + [77], "uivector_remove_at"); vect.uivector_resize(u, 2); need(vect.uivector_tolist(u) == [0, 0], "uivector_resize")
    # tensors
    t = tns.new_tensor(ex["t"]); tns.set_tensor_value(t, 0, 0, 0, 6.5); tl = tns.tensor_tolist(t); need(tl[0][0][0] == 6.5, "set_tensor_value")
    col = vect.new_dvector([1.0] * len(ex["t"][0])); tns.tensor_append_column(t, 0, col); tl = tns.tensor_tolist(t); need(len(tl[0][0]) == len(ex["t"][0][0]) + 1 and all(row[-1] == 1.0 for row in tl[0]), "tensor_append_column")
    t2 = tns.init_tensor(); tns.tensor_copy(t, t2); need(tns.tensor_tolist(t2) == tl, "tensor_copy"); tns.tensor_set(t2, 0.5); need(set(x for blk in tns.tensor_tolist(t2) for row in blk for x in row) == {0.5} and tns.tensor_tolist(t) == tl, "tensor_set / deep copy")
    for o in (ma, mb, res, op, mc, ms, mi): mx.del_matrix(o)
    for o in (dv, out, out2, dw, out3, d, dc): vect.del_dvector(o)
    vect.del_uivector(u); tns.del_tensor(t); tns.del_tensor(t2)
    return r >= 2 and c >= 2

SUBS = {"wrappers": run_wrappers, "containers": run_containers, "pca": run_pca, "pls": run_pls, "cpca": run_cpca, "select": run_select, "spline": run_spline}

# ---------------------------------------------------------------- generators
if not A.replay:
    import hypothesis
    from hypothesis import given, settings, seed, strategies as st, HealthCheck
    val = st.integers(-4000, 4000).map(lambda k: k / 16.0)
    def mat(rmin, rmax, cmin, cmax, elem=val):
        return st.integers(rmin, rmax).flatmap(lambda r: st.integers(cmin, cmax).flatmap(lambda c: st.lists(st.lists(elem, min_size=c, max_size=c), min_size=r, max_size=r)))
    def spread_matrix(draw, n, p):   # columns with a guaranteed spread: base pattern + noise
        X = [[(i * (j + 2) % 7) * 1.5 + draw(val) / 50.0 + 10.0 * j for j in range(p)] for i in range(n)]
        return X
    @st.composite
    def g_containers(draw):
        return {"m": draw(mat(1, 5, 1, 5)), "row": draw(st.lists(val, min_size=1, max_size=6)), "v": draw(st.lists(val, min_size=0, max_size=8)), "u": draw(st.lists(st.integers(0, 10**6), min_size=0, max_size=8)),
                "i": draw(st.lists(st.integers(-1000, 1000), min_size=0, max_size=8)), "t": draw(st.lists(mat(1, 4, 1, 4), min_size=1, max_size=3)), "l": draw(st.lists(st.lists(val, min_size=1, max_size=5), min_size=1, max_size=4))}
    @st.composite
    def g_pca(draw):
        n = draw(st.integers(4, 12)); p = draw(st.integers(2, 5)); X = spread_matrix(draw, n, p)
        return {"x": X, "xnew": [X[i] for i in range(min(3, n))], "scaling": draw(st.integers(0, 5)), "npc": draw(st.integers(1, min(p, 3)))}
    @st.composite
    def g_pls(draw):
        n = draw(st.integers(6, 12)); p = draw(st.integers(2, 4)); ny = draw(st.integers(1, 2)); X = spread_matrix(draw, n, p)
        Y = [[2.0 * X[i][0] - X[i][1] + draw(val) / 40.0 + 3 * k for k in range(ny)] for i in range(n)]
        return {"x": X, "y": Y, "xnew": [X[i] for i in range(3)], "nlv": draw(st.integers(1, min(p, 3))), "xs": draw(st.integers(0, 3)), "ys": draw(st.integers(0, 1))}
    @st.composite
    def g_cpca(draw):
        n = draw(st.integers(5, 10)); nb = draw(st.integers(2, 3)); blocks = [spread_matrix(draw, n, draw(st.integers(2, 4))) for _ in range(nb)]
        return {"blocks": blocks, "scaling": draw(st.integers(0, 3)), "npc": draw(st.integers(1, 2))}
    @st.composite
    def g_select(draw):
        n = draw(st.integers(4, 15)); p = draw(st.integers(1, 4)); X = [[i * 3.0 + draw(val) / 100.0 + j for j in range(p)] for i in range(n)]
        return {"x": X, "nsel": draw(st.integers(1, n))}
    @st.composite
    def g_spline(draw):
        n = draw(st.integers(3, 10)); steps = draw(st.lists(st.integers(1, 64), min_size=n, max_size=n)); x = 0.0; xy = []
        for s_ in steps: x += s_ / 8.0; xy.append([x, draw(val)])
        q = [xy[0][0] + (xy[-1][0] - xy[0][0]) * draw(st.integers(0, 100)) / 100.0 for _ in range(draw(st.integers(1, 6)))]
        return {"xy": xy, "q": q}
    @st.composite
    def g_wrappers(draw):
        r = draw(st.integers(1, 4)); c = draw(st.integers(1, 4)); c2 = draw(st.integers(1, 3))
        A = draw(st.lists(st.lists(val, min_size=c, max_size=c), min_size=r, max_size=r)); B = draw(st.lists(st.lists(val, min_size=c2, max_size=c2), min_size=c, max_size=c))
        return {"a": A, "b": B, "v": draw(st.lists(val, min_size=4, max_size=6)), "u": draw(st.lists(st.integers(0, 1000), min_size=1, max_size=5)), "t": draw(st.lists(mat(1, 3, 1, 3), min_size=1, max_size=2)),
                "ubig": draw(st.lists(st.one_of(st.integers(0, 1000), st.sampled_from([2**31 - 1, 2**31, 2**32 - 1, 2**32, 2**32 + 5, 2**63 - 1, 2**63, 2**64 - 1]), st.integers(0, 2**64 - 1)), min_size=1, max_size=5)),
                "ibig": draw(st.lists(st.one_of(st.integers(-1000, 1000), st.sampled_from([-2**31, -2**31 + 1, -1, 2**31 - 1, 2**15, -2**15 - 1]), st.integers(-2**31, 2**31 - 1)), min_size=1, max_size=5))}
    GENS = {"wrappers": g_wrappers, "containers": g_containers, "pca": g_pca, "pls": g_pls, "cpca": g_cpca, "select": g_select, "spline": g_spline}

stats = {"subs": {}, "layout_fields": 0, "failures": []}
cur = os.path.join(A.work or ".", "current_example.json")

def execute(sub, ex):
    json.dump({"sub": sub, "example": ex}, open(cur, "w"))
    return SUBS[sub](ex)

if A.replay:
    d = json.load(open(A.replay))
    try:
        if d["sub"] == "layout": check_layout()
        else: execute(d["sub"], d["example"])
        print("REPLAY OK"); sys.exit(0)
    except Mismatch as e:
        print("REPLAY FAIL " + str(e)); sys.exit(1)

try:
    stats["layout_fields"] = check_layout()
except Mismatch as e:
    stats["failures"].append({"sub": "layout", "msg": str(e), "example": None})

for sub in SUBS:
    if A.only and A.only != sub: continue
    st_ = {"evaluations": 0, "nt": set(), "samples": []}
    last = {}; t_sub = time.time()
    @seed(A.seed)
    @settings(max_examples=A.count, database=None, deadline=None, report_multiple_bugs=False, suppress_health_check=list(HealthCheck), derandomize=False)
    @given(GENS[sub]())
    def prop(ex):
        # wall budget (thorough tier): once it is used up, further generated examples are not executed (and not counted);
        # it truncates the exploration only - never while a failure is being shrunk
        if A.budget > 0 and not last and time.time() - t_sub > A.budget: return
        st_["evaluations"] += 1
        try:
            nt = execute(sub, ex)
        except Mismatch as e:
            last["ex"] = ex; last["msg"] = str(e); raise
        h = hashlib.sha1(json.dumps(ex, sort_keys=True).encode()).hexdigest()[:16]
        if nt: st_["nt"].add(h)
        if len(st_["samples"]) < 2 and nt: st_["samples"].append(json.dumps(ex)[:1200])
    try:
        prop()
    except Mismatch as e:
        stats["failures"].append({"sub": sub, "msg": last.get("msg", str(e)), "example": last.get("ex")})
    except Exception as e:            # a Python exception from inside the package (wrong restype/argtypes often ends here)
        stats["failures"].append({"sub": sub, "msg": "exception %s: %s" % (type(e).__name__, e), "example": json.load(open(cur))["example"] if os.path.exists(cur) else None})
    stats["subs"][sub] = {"evaluations": st_["evaluations"], "nt": sorted(st_["nt"]), "samples": st_["samples"]}
json.dump(stats, open(A.out, "w"))
