/* C-side reference used by the C20 differential: the same library calls made from C, results flattened.
 * Compiled against the headers of the current tree and linked with the shared library the Python package loads. */
#include <string.h>
#include <stdlib.h>
#include "matrix.h"
#include "vector.h"
#include "tensor.h"
#include "list.h"
#include "pca.h"
#include "pls.h"
#include "cpca.h"
#include "clustering.h"
#include "interpolate.h"

static matrix *mk(const double *x, size_t r, size_t c){ matrix *m; NewMatrix(&m, r, c); for(size_t i=0;i<r;i++) for(size_t j=0;j<c;j++) m->data[i][j]=x[i*c+j]; return m; }
static size_t flat(const matrix *m, double *out){ size_t k=0; for(size_t i=0;i<m->row;i++) for(size_t j=0;j<m->col;j++) out[k++]=m->data[i][j]; return k; }

/* dims[0..1] scores, [2..3] loadings, [4] nvarexp, [5..6] predicted */
void vd_pca(const double *x, size_t n, size_t p, int scaling, size_t npc, const double *xnew, size_t nnew,
            size_t *dims, double *scores, double *loadings, double *varexp, double *pred, double *colavg, double *colscl, size_t *nstat)
{
  matrix *mx = mk(x, n, p), *mn = mk(xnew, nnew, p), *ps; PCAMODEL *m; NewPCAModel(&m); initMatrix(&ps);
  PCA(mx, scaling, npc, m, NULL);
  PCAScorePredictor(mn, m, npc, ps);
  dims[0]=m->scores->row; dims[1]=m->scores->col; dims[2]=m->loadings->row; dims[3]=m->loadings->col; dims[4]=m->varexp->size; dims[5]=ps->row; dims[6]=ps->col;
  flat(m->scores, scores); flat(m->loadings, loadings); for(size_t i=0;i<m->varexp->size;i++) varexp[i]=m->varexp->data[i]; flat(ps, pred);
  nstat[0]=m->colaverage->size; nstat[1]=m->colscaling->size;
  for(size_t i=0;i<m->colaverage->size;i++) colavg[i]=m->colaverage->data[i];
  for(size_t i=0;i<m->colscaling->size;i++) colscl[i]=m->colscaling->data[i];
  DelMatrix(&ps); DelPCAModel(&m); DelMatrix(&mx); DelMatrix(&mn);
}

/* out arrays: tscores, uscores, ploadings, qloadings, weights (all with nlv columns), b, xvarexp, betas(nlv=1..), pred (nnew x ny*nlv) */
void vd_pls(const double *x, const double *y, size_t n, size_t p, size_t ny, size_t nlv, int xs, int ys, const double *xnew, size_t nnew,
            size_t *dims, double *t, double *u, double *pl, double *q, double *w, double *b, double *xvar, double *betas, double *pred,
            double *xavg, double *xscl, double *yavg, double *yscl, size_t *nstat)
{
  matrix *mx = mk(x, n, p), *my = mk(y, n, ny), *mn = mk(xnew, nnew, p), *py; PLSMODEL *m; NewPLSModel(&m); initMatrix(&py);
  PLS(mx, my, nlv, xs, ys, m, NULL);
  PLSYPredictorAllLV(mn, m, NULL, py);
  dims[0]=m->xscores->row; dims[1]=m->xscores->col; dims[2]=m->xloadings->row; dims[3]=m->yloadings->row; dims[4]=m->b->size; dims[5]=py->row; dims[6]=py->col;
  flat(m->xscores,t); flat(m->yscores,u); flat(m->xloadings,pl); flat(m->yloadings,q); flat(m->xweights,w);
  for(size_t i=0;i<m->b->size;i++) b[i]=m->b->data[i];
  for(size_t i=0;i<m->xvarexp->size;i++) xvar[i]=m->xvarexp->data[i];
  { dvector *bt; initDVector(&bt); PLSBetasCoeff(m, m->b->size, bt); for(size_t i=0;i<bt->size;i++) betas[i]=bt->data[i]; dims[7]=bt->size; DelDVector(&bt); }
  flat(py, pred);
  nstat[0]=m->xcolaverage->size; nstat[1]=m->xcolscaling->size; nstat[2]=m->ycolaverage->size; nstat[3]=m->ycolscaling->size;
  for(size_t i=0;i<nstat[0];i++) xavg[i]=m->xcolaverage->data[i];
  for(size_t i=0;i<nstat[1];i++) xscl[i]=m->xcolscaling->data[i];
  for(size_t i=0;i<nstat[2];i++) yavg[i]=m->ycolaverage->data[i];
  for(size_t i=0;i<nstat[3];i++) yscl[i]=m->ycolscaling->data[i];
  DelMatrix(&py); DelPLSModel(&m); DelMatrix(&mx); DelMatrix(&my); DelMatrix(&mn);
}

/* blocks: nb blocks of n x w[b], concatenated block after block */
void vd_cpca(const double *x, size_t n, size_t nb, const size_t *w, int scaling, size_t npc,
             size_t *dims, double *sscores, double *sweights, double *totvar, double *bscores, double *bload, double *bexp, double *pred)
{
  tensor *t; NewTensor(&t, nb); size_t off=0;
  for(size_t b=0;b<nb;b++){ NewTensorMatrix(t,b,n,w[b]); for(size_t i=0;i<n;i++) for(size_t j=0;j<w[b];j++) t->m[b]->data[i][j]=x[off+i*w[b]+j]; off+=n*w[b]; }
  CPCAMODEL *m; NewCPCAModel(&m);
  CPCA(t, scaling, npc, m);
  dims[0]=m->super_scores->row; dims[1]=m->super_scores->col; dims[2]=m->super_weights->row; dims[3]=m->super_weights->col; dims[4]=m->total_expvar->size; dims[5]=m->block_scores->order; dims[6]=m->block_loadings->order; dims[7]=m->block_expvar->size;
  flat(m->super_scores, sscores); flat(m->super_weights, sweights);
  for(size_t i=0;i<m->total_expvar->size;i++) totvar[i]=m->total_expvar->data[i];
  size_t k=0; for(size_t b=0;b<m->block_scores->order;b++) k+=flat(m->block_scores->m[b], bscores+k);
  k=0; for(size_t b=0;b<m->block_loadings->order;b++) k+=flat(m->block_loadings->m[b], bload+k);
  k=0; for(size_t b=0;b<m->block_expvar->size;b++) for(size_t i=0;i<m->block_expvar->d[b]->size;i++) bexp[k++]=m->block_expvar->d[b]->data[i];
  { matrix *ps; tensor *pb; initMatrix(&ps); initTensor(&pb); CPCAScorePredictor(t, m, npc, ps, pb); dims[8]=ps->row; dims[9]=ps->col; flat(ps, pred); DelMatrix(&ps); DelTensor(&pb); }
  DelCPCAModel(&m); DelTensor(&t);
}

void vd_select(const double *x, size_t n, size_t p, size_t nsel, size_t threads, size_t *mdc, size_t *maxdis)
{
  matrix *mx = mk(x, n, p); uivector *a, *b; initUIVector(&a); initUIVector(&b);
  MDC(mx, nsel, 0, a, threads); MaxDis_Fast(mx, nsel, 0, b, threads);
  for(size_t i=0;i<a->size && i<nsel;i++) mdc[i]=a->data[i];
  for(size_t i=0;i<b->size && i<nsel;i++) maxdis[i]=b->data[i];
  DelUIVector(&a); DelUIVector(&b); DelMatrix(&mx);
}

void vd_spline(const double *xy, size_t n, const double *q, size_t nq, double *out)
{
  matrix *m = mk(xy, n, 2), *s; initMatrix(&s); cubic_spline_interpolation(m, s);
  dvector *dq, *yp; NewDVector(&dq, nq); for(size_t i=0;i<nq;i++) dq->data[i]=q[i]; initDVector(&yp);
  cubic_spline_predict(dq, s, yp);
  for(size_t i=0;i<nq;i++) out[i]=yp->data[i];
  DelDVector(&dq); DelDVector(&yp); DelMatrix(&m); DelMatrix(&s);
}

void vd_matops(const double *a, size_t r, size_t c, const double *v, double *mv, double *vm_in_rows, double *tr)
{
  matrix *m = mk(a, r, c), *t; NewMatrix(&t, c, r); MatrixTranspose(m, t); flat(t, tr);
  dvector *dv, *p; NewDVector(&dv, c); for(size_t j=0;j<c;j++) dv->data[j]=v[j]; NewDVector(&p, r);
  MatrixDVectorDotProduct(m, dv, p); for(size_t i=0;i<r;i++) mv[i]=p->data[i];
  dvector *dw, *q; NewDVector(&dw, r); for(size_t i=0;i<r;i++) dw->data[i]=v[i % (c ? c : 1)]; NewDVector(&q, c);
  DVectorMatrixDotProduct(m, dw, q); for(size_t j=0;j<c;j++) vm_in_rows[j]=q->data[j];
  DelDVector(&dv); DelDVector(&p); DelDVector(&dw); DelDVector(&q); DelMatrix(&m); DelMatrix(&t);
}

/* live-object dumps by C member name: what the C code sees in an object created through the Python wrappers */
void vd_dump_matrix(const matrix *m, size_t *dims, double *out, size_t cap){ dims[0]=m->row; dims[1]=m->col; size_t k=0; for(size_t i=0;i<m->row;i++) for(size_t j=0;j<m->col;j++) if(k<cap) out[k++]=m->data[i][j]; }
void vd_dump_dvector(const dvector *v, size_t *dims, double *out, size_t cap){ dims[0]=v->size; for(size_t i=0;i<v->size && i<cap;i++) out[i]=v->data[i]; }
void vd_dump_uivector(const uivector *v, size_t *dims, size_t *out, size_t cap){ dims[0]=v->size; for(size_t i=0;i<v->size && i<cap;i++) out[i]=v->data[i]; }
void vd_dump_ivector(const ivector *v, size_t *dims, int *out, size_t cap){ dims[0]=v->size; for(size_t i=0;i<v->size && i<cap;i++) out[i]=v->data[i]; }
void vd_dump_tensor(const tensor *t, size_t *dims, double *out, size_t cap){ dims[0]=t->order; size_t k=0; for(size_t b=0;b<t->order;b++){ dims[1+2*b]=t->m[b]->row; dims[2+2*b]=t->m[b]->col; for(size_t i=0;i<t->m[b]->row;i++) for(size_t j=0;j<t->m[b]->col;j++) if(k<cap) out[k++]=t->m[b]->data[i][j]; } }
void vd_dump_dvlist(const dvectorlist *l, size_t *dims, double *out, size_t cap){ dims[0]=l->size; size_t k=0; for(size_t b=0;b<l->size;b++){ dims[1+b]=l->d[b]->size; for(size_t i=0;i<l->d[b]->size;i++) if(k<cap) out[k++]=l->d[b]->data[i]; } }
