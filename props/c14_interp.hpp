// Interpreter for container operation histories (C14).  Each op is 6 integers: kind, opcode, a, b, c, d.
// Any integer sequence is a valid history: arguments are reduced modulo the current shapes and an op whose
// documented precondition does not hold (delete on an empty matrix, sort of an empty vector, ...) is skipped.
// The shadow model is updated by the documented meaning of the op; with live=false only the shadow runs
// (used to classify generated histories).
#pragma once
#include "common.hpp"
#include <string>

// defined in matrix.c; matrix.h declares MatrixAppendUIRow twice and this one not at all
extern "C" void MatrixAppendUICol(matrix *m, uivector *col);

namespace c14 {
using namespace vf;

enum Kind { K_DVEC = 0, K_UIVEC, K_IVEC, K_STRVEC, K_MATRIX, K_TENSOR, K_LIST, NKINDS };
struct Flags { bool mismatched_append = false, copy_onto_different = false, op_after_delete = false, oor_access = false, empty_source_copy = false; };

typedef std::vector<double> SV;
struct SM { size_t r = 0, c = 0; std::vector<SV> d; void shape(size_t r_, size_t c_) { r = r_; c = c_; d.assign(r_, SV(c_, 0.0)); } };
struct SS { std::vector<std::string> s; std::vector<char> known; };

struct Pools {
  static const int NV = 3, NM = 3, NT = 2, NL = 2;
  dvector *dv[NV] = {}; SV sdv[NV];
  uivector *uv[NV] = {}; std::vector<size_t> suv[NV];
  ivector *iv[NV] = {}; std::vector<int> siv[NV];
  strvector *st[NV] = {}; SS sst[NV];
  matrix *mx[NM] = {}; SM smx[NM];
  tensor *tn[NT] = {}; std::vector<SM> stn[NT];
  dvectorlist *ls[NL] = {}; std::vector<SV> sls[NL];
};

inline double payload(int64_t seed, size_t i) { return (double)((seed * 31 + (int64_t)i * 7 + 3) % 1000) / 8.0 - 20.0; }
inline size_t around(size_t cur, int64_t sel, int64_t extra) {   // operand length drawn around the current dimension
  switch (sel % 4) { case 0: return 0; case 1: return cur > 0 ? (size_t)(extra % (int64_t)cur) : 0; case 2: return cur; default: return cur + 1 + (size_t)(extra % 3); }
}

// the libFuzzer target runs in-process: ops whose documented outcome is abort() are skipped there
static bool g_skip_abort_ops = false;

struct Interp {
  Pools P; bool live; Flags fl; bool deleted_something = false; int step = 0;
  explicit Interp(bool live_) : live(live_) {}

  // ---------------------------------------------------------------- setup / teardown
  void start() {
    for (int i = 0; i < Pools::NV; i++) {
      if (live) { initDVector(&P.dv[i]); initUIVector(&P.uv[i]); initIVector(&P.iv[i]); initStrVector(&P.st[i]); }
    }
    for (int i = 0; i < Pools::NM; i++) if (live) initMatrix(&P.mx[i]);
    for (int i = 0; i < Pools::NT; i++) if (live) initTensor(&P.tn[i]);
    for (int i = 0; i < Pools::NL; i++) if (live) initDVectorList(&P.ls[i]);
  }
  void finish() {
    if (!live) return;
    for (int i = 0; i < Pools::NV; i++) { DelDVector(&P.dv[i]); DelUIVector(&P.uv[i]); DelIVector(&P.iv[i]); DelStrVector(&P.st[i]); }
    for (int i = 0; i < Pools::NM; i++) DelMatrix(&P.mx[i]);
    for (int i = 0; i < Pools::NT; i++) DelTensor(&P.tn[i]);
    for (int i = 0; i < Pools::NL; i++) DelDVectorList(&P.ls[i]);
  }

  // ---------------------------------------------------------------- checks
  void bad(const std::string &what) { fail(fmt("step %d: %s", step, what.c_str())); }
  void check_dv() { if (!live) return; for (int i = 0; i < Pools::NV; i++) {
      if (P.dv[i]->size != P.sdv[i].size()) bad(fmt("dvector %d has size %zu, model %zu", i, P.dv[i]->size, P.sdv[i].size()));
      for (size_t k = 0; k < P.sdv[i].size(); k++) if (P.dv[i]->data[k] != P.sdv[i][k]) bad(fmt("dvector %d cell %zu = %g, model %g", i, k, P.dv[i]->data[k], P.sdv[i][k])); } }
  void check_uv() { if (!live) return; for (int i = 0; i < Pools::NV; i++) {
      if (P.uv[i]->size != P.suv[i].size()) bad(fmt("uivector %d has size %zu, model %zu", i, P.uv[i]->size, P.suv[i].size()));
      for (size_t k = 0; k < P.suv[i].size(); k++) if (P.uv[i]->data[k] != P.suv[i][k]) bad(fmt("uivector %d cell %zu = %zu, model %zu", i, k, P.uv[i]->data[k], P.suv[i][k])); } }
  void check_iv() { if (!live) return; for (int i = 0; i < Pools::NV; i++) {
      if (P.iv[i]->size != P.siv[i].size()) bad(fmt("ivector %d has size %zu, model %zu", i, P.iv[i]->size, P.siv[i].size()));
      for (size_t k = 0; k < P.siv[i].size(); k++) if (P.iv[i]->data[k] != P.siv[i][k]) bad(fmt("ivector %d cell %zu = %d, model %d", i, k, P.iv[i]->data[k], P.siv[i][k])); } }
  void check_st() { if (!live) return; for (int i = 0; i < Pools::NV; i++) {
      if (P.st[i]->size != P.sst[i].s.size()) bad(fmt("strvector %d has size %zu, model %zu", i, P.st[i]->size, P.sst[i].s.size()));
      for (size_t k = 0; k < P.sst[i].s.size(); k++) if (P.sst[i].known[k] && P.sst[i].s[k] != std::string(getStr(P.st[i], k))) bad(fmt("strvector %d string %zu = '%s', model '%s'", i, k, getStr(P.st[i], k), P.sst[i].s[k].c_str())); } }
  void check_m(const matrix *m, const SM &s, const std::string &who) {
    if (m->row != s.r || m->col != s.c) bad(fmt("%s is %zux%zu, model %zux%zu", who.c_str(), m->row, m->col, s.r, s.c));
    for (size_t i = 0; i < s.r; i++) for (size_t j = 0; j < s.c; j++) if (m->data[i][j] != s.d[i][j]) bad(fmt("%s cell (%zu,%zu) = %g, model %g", who.c_str(), i, j, m->data[i][j], s.d[i][j])); }
  void check_mx() { if (!live) return; for (int i = 0; i < Pools::NM; i++) check_m(P.mx[i], P.smx[i], fmt("matrix %d", i)); }
  void check_tn() { if (!live) return; for (int i = 0; i < Pools::NT; i++) {
      if (P.tn[i]->order != P.stn[i].size()) bad(fmt("tensor %d has order %zu, model %zu", i, P.tn[i]->order, P.stn[i].size()));
      for (size_t k = 0; k < P.stn[i].size(); k++) check_m(P.tn[i]->m[k], P.stn[i][k], fmt("tensor %d block %zu", i, k)); } }
  void check_ls() { if (!live) return; for (int i = 0; i < Pools::NL; i++) {
      if (P.ls[i]->size != P.sls[i].size()) bad(fmt("list %d has size %zu, model %zu", i, P.ls[i]->size, P.sls[i].size()));
      for (size_t k = 0; k < P.sls[i].size(); k++) { if (P.ls[i]->d[k]->size != P.sls[i][k].size()) bad(fmt("list %d entry %zu size", i, k)); for (size_t q = 0; q < P.sls[i][k].size(); q++) if (P.ls[i]->d[k]->data[q] != P.sls[i][k][q]) bad(fmt("list %d entry %zu cell %zu", i, k, q)); } } }

  // ---------------------------------------------------------------- per-kind ops
  void op_dvec(int op, int64_t a, int64_t b, int64_t c, int64_t d) {
    int s = (int)(a % Pools::NV), s2 = (int)(b % Pools::NV); SV &sh = P.sdv[s];
    switch (op % 14) {
      case 0: { size_t n = (size_t)(c % 7); if (live) { DelDVector(&P.dv[s]); NewDVector(&P.dv[s], n); } sh.assign(n, 0.0); break; }
      case 1: { if (live) { DelDVector(&P.dv[s]); initDVector(&P.dv[s]); } sh.clear(); break; }
      case 2: { size_t n = (size_t)(c % 7); if (live) DVectorResize(P.dv[s], n); sh.assign(n, 0.0); break; }
      case 3: { double v = payload(d, 0); if (live) DVectorAppend(P.dv[s], v); sh.push_back(v); break; }
      case 4: { size_t idx = (size_t)(c % 8); if (idx >= sh.size()) fl.oor_access = true; if (live) DVectorRemoveAt(P.dv[s], idx); if (idx < sh.size()) { sh.erase(sh.begin() + idx); deleted_something = true; } break; }
      case 5: { if (s == s2) break; if (!P.sdv[s2].empty() && P.sdv[s2].size() != sh.size()) fl.copy_onto_different = true; if (sh.empty() && !P.sdv[s2].empty()) fl.empty_source_copy = true;
                if (live) DVectorCopy(P.dv[s], P.dv[s2]); P.sdv[s2] = sh; break; }
      case 6: { int s3 = (int)(c % Pools::NV); SV e = sh; e.insert(e.end(), P.sdv[s2].begin(), P.sdv[s2].end());
                if (live) { dvector *x = DVectorExtend(P.dv[s], P.dv[s2]); DelDVector(&P.dv[s3]); P.dv[s3] = x; } P.sdv[s3] = e; break; }
      case 7: { if (sh.empty()) break; size_t idx = (size_t)c % sh.size(); double v = payload(d, 1); if (live) setDVectorValue(P.dv[s], idx, v); sh[idx] = v; break; }
      case 8: { if (sh.empty()) break; size_t idx = (size_t)c % sh.size(); if (live && getDVectorValue(P.dv[s], idx) != sh[idx]) bad("getDVectorValue"); break; }
      case 9: { if (d % 8 != 0 || g_skip_abort_ops) break;   // out-of-range accessor: the documented behaviour is an error message and abort()
                fl.oor_access = true; if (live) { expect_abort(true); if (c % 2) setDVectorValue(P.dv[s], sh.size() + (size_t)(c % 3), 1.0); else (void)getDVectorValue(P.dv[s], sh.size() + (size_t)(c % 3)); expect_abort(false); bad("out-of-range dvector accessor returned"); } break; }
      case 10: { if (sh.empty()) break; if (live) DVectorSort(P.dv[s]); std::sort(sh.begin(), sh.end()); break; }
      case 11: { if (sh.empty()) break; double med = 0; if (live) DVectorMedian(P.dv[s], &med); std::sort(sh.begin(), sh.end());
                 double ref = sh.size() % 2 ? sh[sh.size() / 2] : (sh[sh.size() / 2] + sh[sh.size() / 2 - 1]) / 2; if (live && med != ref) bad(fmt("DVectorMedian = %g, model %g", med, ref)); break; }
      case 12: { double v = payload(d, 2); if (live) DVectorSet(P.dv[s], v); for (auto &x : sh) x = v; break; }
      case 13: { double v = sh.empty() || (d % 2) ? 12345.5 : sh[(size_t)c % sh.size()]; bool has = false; for (double x : sh) if (std::fabs(x - v) < 1e-3) has = true;
                 if (live && (DVectorHasValue(P.dv[s], v) == 0) != has) bad("DVectorHasValue"); break; }
    }
    check_dv();
  }
  void op_uivec(int op, int64_t a, int64_t b, int64_t c, int64_t d) {
    int s = (int)(a % Pools::NV), s2 = (int)(b % Pools::NV); auto &sh = P.suv[s];
    size_t val = (d % 16 == 15) ? (size_t)3000000000ULL + (size_t)c : (size_t)((d * 13 + c) % 50);
    switch (op % 11) {
      case 0: { size_t n = (size_t)(c % 7); if (live) { DelUIVector(&P.uv[s]); NewUIVector(&P.uv[s], n); } sh.assign(n, 0); break; }
      case 1: { if (live) { DelUIVector(&P.uv[s]); initUIVector(&P.uv[s]); } sh.clear(); break; }
      case 2: { size_t n = (size_t)(c % 7); if (live) UIVectorResize(P.uv[s], n); sh.assign(n, 0); break; }
      case 3: { if (live) UIVectorAppend(P.uv[s], val); sh.push_back(val); break; }
      case 4: { size_t idx = (size_t)(c % 8); if (idx >= sh.size()) fl.oor_access = true; if (live) UIVectorRemoveAt(P.uv[s], idx); if (idx < sh.size()) { sh.erase(sh.begin() + idx); deleted_something = true; } break; }
      case 5: { int s3 = (int)(c % Pools::NV); auto e = sh; e.insert(e.end(), P.suv[s2].begin(), P.suv[s2].end());
                if (live) { uivector *x = UIVectorExtend(P.uv[s], P.uv[s2]); DelUIVector(&P.uv[s3]); P.uv[s3] = x; } P.suv[s3] = e; break; }
      case 6: { size_t idx = (size_t)(c % 8); if (idx >= sh.size()) fl.oor_access = true; if (live) setUIVectorValue(P.uv[s], idx, val); if (idx < sh.size()) sh[idx] = val; break; }
      case 7: { if (sh.empty()) break; size_t idx = (size_t)c % sh.size(); if (live && getUIVectorValue(P.uv[s], idx) != sh[idx]) bad("getUIVectorValue"); break; }
      case 8: { bool has = std::find(sh.begin(), sh.end(), val) != sh.end(); int io = -1; for (size_t k = 0; k < sh.size(); k++) if (sh[k] == val) { io = (int)k; break; }
                if (live && ((UIVectorHasValue(P.uv[s], val) == 0) != has || UIVectorIndexOf(P.uv[s], val) != io)) bad("UIVectorHasValue/IndexOf"); break; }
      case 9: { if (sh.empty()) break; if (live) SortUIVector(P.uv[s]); std::sort(sh.begin(), sh.end()); break; }
      case 10: { if (live) UIVectorSet(P.uv[s], val); for (auto &x : sh) x = val; break; }
    }
    check_uv();
  }
  void op_ivec(int op, int64_t a, int64_t b, int64_t c, int64_t d) {
    int s = (int)(a % Pools::NV), s2 = (int)(b % Pools::NV); auto &sh = P.siv[s];
    int val = (int)((d * 17 + c) % 101) - 50;
    switch (op % 8) {
      case 0: { size_t n = (size_t)(c % 7); if (live) { DelIVector(&P.iv[s]); NewIVector(&P.iv[s], n); } sh.assign(n, 0); break; }
      case 1: { if (live) { DelIVector(&P.iv[s]); initIVector(&P.iv[s]); } sh.clear(); break; }
      case 2: { if (live) IVectorAppend(P.iv[s], val); sh.push_back(val); break; }
      case 3: { size_t idx = (size_t)(c % 8); if (idx >= sh.size()) fl.oor_access = true; if (live) IVectorRemoveAt(P.iv[s], idx); if (idx < sh.size()) { sh.erase(sh.begin() + idx); deleted_something = true; } break; }
      case 4: { int s3 = (int)(c % Pools::NV); auto e = sh; e.insert(e.end(), P.siv[s2].begin(), P.siv[s2].end());
                if (live) { ivector *x = IVectorExtend(P.iv[s], P.iv[s2]); DelIVector(&P.iv[s3]); P.iv[s3] = x; } P.siv[s3] = e; break; }
      case 5: { size_t idx = (size_t)(c % 8); if (idx >= sh.size()) fl.oor_access = true; if (live) setIVectorValue(P.iv[s], idx, val); if (idx < sh.size()) sh[idx] = val; break; }
      case 6: { if (sh.empty()) break; size_t idx = (size_t)c % sh.size(); if (live && getIVectorValue(P.iv[s], idx) != sh[idx]) bad("getIVectorValue"); break; }
      case 7: { bool has = std::find(sh.begin(), sh.end(), val) != sh.end(); if (live && (IVectorHasValue(P.iv[s], val) == 0) != has) bad("IVectorHasValue"); if (live) { IVectorSet(P.iv[s], val); } for (auto &x : sh) x = val; break; }
    }
    check_iv();
  }
  void op_strvec(int op, int64_t a, int64_t b, int64_t c, int64_t d) {
    int s = (int)(a % Pools::NV), s2 = (int)(b % Pools::NV); SS &sh = P.sst[s];
    std::string str = (d % 5 == 0) ? std::string() : fmt("s%lld_%s", (long long)d, std::string((size_t)(c % 9), 'x').c_str());
    switch (op % 9) {
      case 0: { size_t n = (size_t)(c % 5); if (live) { DelStrVector(&P.st[s]); NewStrVector(&P.st[s], n); } sh.s.assign(n, ""); sh.known.assign(n, 0); break; }  // content unspecified
      case 1: { if (live) { DelStrVector(&P.st[s]); initStrVector(&P.st[s]); } sh.s.clear(); sh.known.clear(); break; }
      case 2: { size_t n = (size_t)(c % 5); if (live) StrVectorResize(P.st[s], n); sh.s.assign(n, ""); sh.known.assign(n, 1); break; }
      case 3: { if (live) StrVectorAppend(P.st[s], (char *)str.c_str()); sh.s.push_back(str); sh.known.push_back(1); break; }
      case 4: { int v = (int)(d * 7 - 100); if (live) StrVectorAppendInt(P.st[s], v); sh.s.push_back(std::to_string(v)); sh.known.push_back(1); break; }
      case 5: { double v = payload(d, 5); if (live) StrVectorAppendDouble(P.st[s], v); sh.s.push_back(fmt("%f", v)); sh.known.push_back(1); break; }
      case 6: { if (d % 8 == 1 && !g_skip_abort_ops) { fl.oor_access = true; if (live) { expect_abort(true); setStr(P.st[s], sh.s.size() + (size_t)(c % 2), (char *)str.c_str()); expect_abort(false); bad("out-of-range setStr returned"); } break; }
                if (sh.s.empty()) break; size_t idx = (size_t)c % sh.s.size(); if (live) setStr(P.st[s], idx, (char *)str.c_str()); sh.s[idx] = str; sh.known[idx] = 1; break; }
      case 7: { // extend; the result replaces a pool slot (the old object is deleted), the sources stay alive: a shallow copy shows as a double free / use after free
                int s3 = (int)(c % Pools::NV); SS e = sh; e.s.insert(e.s.end(), P.sst[s2].s.begin(), P.sst[s2].s.end()); e.known.insert(e.known.end(), P.sst[s2].known.begin(), P.sst[s2].known.end());
                if (live) { strvector *x = StrVectorExtend(P.st[s], P.st[s2]); DelStrVector(&P.st[s3]); P.st[s3] = x; } P.sst[s3] = e; deleted_something = true; break; }
      case 8: { if (d % 8 == 2 && !g_skip_abort_ops) { fl.oor_access = true; if (live) { expect_abort(true); (void)getStr(P.st[s], sh.s.size() + (size_t)(c % 2)); expect_abort(false); bad("out-of-range getStr returned"); } break; }
                if (sh.s.empty()) break; size_t idx = (size_t)c % sh.s.size(); if (live && sh.known[idx] && sh.s[idx] != std::string(getStr(P.st[s], idx))) bad("getStr"); break; }
    }
    check_st();
  }
  static SV mkvec(size_t n, int64_t seed) { SV v(n); for (size_t i = 0; i < n; i++) v[i] = payload(seed, i); return v; }
  static dvector *libvec(const SV &v) { dvector *x; NewDVector(&x, v.size()); for (size_t i = 0; i < v.size(); i++) x->data[i] = v[i]; return x; }
  static uivector *libuvec(const SV &v) { uivector *x; NewUIVector(&x, v.size()); for (size_t i = 0; i < v.size(); i++) x->data[i] = (size_t)std::fabs(v[i]); return x; }
  void sh_append_row(SM &m, const SV &row) {
    size_t nc = m.c != 0 ? std::max(m.c, row.size()) : row.size();
    for (auto &r : m.d) r.resize(nc, 0.0);
    SV nr = row; nr.resize(nc, 0.0); m.d.push_back(nr); m.r++; m.c = nc;
  }
  void sh_append_col(SM &m, const SV &col) {
    size_t nr = m.r != 0 ? std::max(m.r, col.size()) : col.size();
    size_t nc = m.c + 1;
    while (m.d.size() < nr) m.d.push_back(SV(m.c, 0.0));
    for (size_t i = 0; i < nr; i++) { m.d[i].resize(nc, 0.0); m.d[i][nc - 1] = i < col.size() ? col[i] : 0.0; }
    m.r = nr; m.c = nc;
  }
  void op_matrix(int op, int64_t a, int64_t b, int64_t c, int64_t d) {
    int s = (int)(a % Pools::NM), s2 = (int)(b % Pools::NM); SM &sh = P.smx[s];
    switch (op % 16) {
      case 0: { size_t r = (size_t)(b % 6), cc = (size_t)(c % 6); if (live) { DelMatrix(&P.mx[s]); NewMatrix(&P.mx[s], r, cc); } sh.shape(r, cc); break; }
      case 1: { if (live) { DelMatrix(&P.mx[s]); initMatrix(&P.mx[s]); } sh.shape(0, 0); break; }
      case 2: { size_t r = (size_t)(b % 6), cc = (size_t)(c % 6); if (live) ResizeMatrix(P.mx[s], r, cc); sh.shape(r, cc); break; }
      case 3: { if (s == s2) break; SM &dst = P.smx[s2]; if (dst.r * dst.c > 0 && (dst.r != sh.r || dst.c != sh.c)) fl.copy_onto_different = true; if (sh.r * sh.c == 0 && dst.r * dst.c > 0) fl.empty_source_copy = true;
                if (live) MatrixCopy(P.mx[s], &P.mx[s2]); dst = sh; break; }
      case 4: { if (sh.r * sh.c == 0) break; size_t i = (size_t)b % sh.r, j = (size_t)c % sh.c; double v = payload(d, 3); if (live) setMatrixValue(P.mx[s], i, j, v); sh.d[i][j] = v; break; }
      case 5: { if (sh.r * sh.c == 0) break; size_t i = (size_t)b % sh.r, j = (size_t)c % sh.c; if (live && getMatrixValue(P.mx[s], i, j) != sh.d[i][j]) bad("getMatrixValue"); break; }
      case 6: { fl.oor_access = true; size_t i = sh.r + (size_t)(b % 2), j = sh.c + (size_t)(c % 2);   // documented: error message, NAN, nothing touched
                if (live) { setMatrixValue(P.mx[s], i, j, 7.0); double g = getMatrixValue(P.mx[s], i, j); if (!std::isnan(g)) bad("out-of-range getMatrixValue did not return NAN"); } break; }
      case 7: case 8: { size_t n = around(sh.c, b, c); SV row = mkvec(n, d); if (n != sh.c && sh.r > 0) fl.mismatched_append = true;
                if (live) { if (op % 16 == 7) { dvector *x = libvec(row); MatrixAppendRow(P.mx[s], x); DelDVector(&x); } else { uivector *x = libuvec(row); MatrixAppendUIRow(P.mx[s], x); DelUIVector(&x); } }
                if (op % 16 == 8) for (auto &x : row) x = (double)(size_t)std::fabs(x);
                sh_append_row(sh, row); break; }
      case 9: case 10: { size_t n = around(sh.r, b, c); SV col = mkvec(n, d); if (n != sh.r && sh.c > 0) fl.mismatched_append = true;
                if (live) { if (op % 16 == 9) { dvector *x = libvec(col); MatrixAppendCol(P.mx[s], x); DelDVector(&x); } else { uivector *x = libuvec(col); MatrixAppendUICol(P.mx[s], x); DelUIVector(&x); } }
                if (op % 16 == 10) for (auto &x : col) x = (double)(size_t)std::fabs(x);
                sh_append_col(sh, col); break; }
      case 11: { if (d % 6 == 0) { fl.oor_access = true; if (live) MatrixDeleteRowAt(P.mx[s], sh.r + (size_t)(c % 2)); break; }   // out of range: nothing changes
                 if (sh.r == 0) break; size_t i = (size_t)b % sh.r; if (live) MatrixDeleteRowAt(P.mx[s], i); sh.d.erase(sh.d.begin() + i); sh.r--; deleted_something = true; break; }
      case 12: { if (d % 6 == 0) { fl.oor_access = true; if (live) MatrixDeleteColAt(P.mx[s], sh.c + (size_t)(b % 2)); break; }   // out of range: nothing changes
                 if (sh.c == 0 || sh.r == 0) break; size_t j = (size_t)c % sh.c; if (live) MatrixDeleteColAt(P.mx[s], j); for (auto &r : sh.d) r.erase(r.begin() + j); sh.c--; deleted_something = true; break; }
      case 13: { if (sh.r == 0) break; size_t i = (size_t)b % sh.r; if (live) { dvector *x = getMatrixRow(P.mx[s], i); if (!x || x->size != sh.c) bad("getMatrixRow size"); for (size_t j = 0; j < sh.c; j++) if (x->data[j] != sh.d[i][j]) bad("getMatrixRow value"); if (sh.c) x->data[0] += 1; DelDVector(&x);
                  if (getMatrixRow(P.mx[s], sh.r + 1) != NULL) bad("getMatrixRow out of range did not return NULL"); } break; }
      case 14: { if (sh.c == 0) break; size_t j = (size_t)c % sh.c; if (live) { dvector *x = getMatrixColumn(P.mx[s], j); if (!x || x->size != sh.r) bad("getMatrixColumn size"); for (size_t i = 0; i < sh.r; i++) if (x->data[i] != sh.d[i][j]) bad("getMatrixColumn value"); DelDVector(&x);
                  if (getMatrixColumn(P.mx[s], sh.c + 1) != NULL) bad("getMatrixColumn out of range did not return NULL"); } break; }
      case 15: { double v = payload(d, 4); if (live) MatrixSet(P.mx[s], v); for (auto &r : sh.d) for (auto &x : r) x = v; break; }
    }
    check_mx();
  }
  void op_tensor(int op, int64_t a, int64_t b, int64_t c, int64_t d) {
    int s = (int)(a % Pools::NT); auto &sh = P.stn[s];
    switch (op % 11) {
      case 0: { if (live) { DelTensor(&P.tn[s]); initTensor(&P.tn[s]); } sh.clear(); break; }
      case 1: { size_t o = 1 + (size_t)(b % 3), r = (size_t)(c % 4), cc = (size_t)(d % 4);   // NewTensor: every slot is filled before use
                if (live) { DelTensor(&P.tn[s]); NewTensor(&P.tn[s], o); for (size_t k = 0; k < o; k++) NewTensorMatrix(P.tn[s], k, r + k % 2, cc); }
                sh.assign(o, SM()); for (size_t k = 0; k < o; k++) sh[k].shape(r + k % 2, cc); break; }
      case 2: { size_t r = (size_t)(b % 4), cc = (size_t)(c % 4); if (live) AddTensorMatrix(P.tn[s], r, cc); SM m; m.shape(r, cc); sh.push_back(m); break; }
      case 3: { const SM &src = P.smx[(size_t)b % Pools::NM]; if (!sh.empty() && sh.back().r != src.r) break;   // documented precondition: same number of objects
                if (live) TensorAppendMatrix(P.tn[s], P.mx[(size_t)b % Pools::NM]); sh.push_back(src); break; }
      case 4: { if (sh.empty()) break; size_t k = (size_t)b % sh.size(); size_t n = around(sh[k].r, c, d); SV col = mkvec(n, d); if (n != sh[k].r && sh[k].c > 0) fl.mismatched_append = true;
                if (live) { dvector *x = libvec(col); TensorAppendColumn(P.tn[s], k, x); DelDVector(&x); } sh_append_col(sh[k], col); break; }
      case 5: { if (sh.empty()) break; size_t k = (size_t)b % sh.size(); size_t n = around(sh[k].c, c, d);
                SV row = mkvec(n, d); if (n != sh[k].c && sh[k].r > 0) fl.mismatched_append = true;
                if (live) { dvector *x = libvec(row); TensorAppendRow(P.tn[s], k, x); DelDVector(&x); } sh_append_row(sh[k], row); break; }
      case 6: { if (sh.empty()) break; size_t k = (size_t)b % sh.size(); if (sh[k].r * sh[k].c == 0) break; size_t i = (size_t)c % sh[k].r, j = (size_t)d % sh[k].c; double v = payload(d, 6);
                if (live) { setTensorValue(P.tn[s], k, i, j, v); if (getTensorValue(P.tn[s], k, i, j) != v) bad("getTensorValue"); } sh[k].d[i][j] = v; break; }
      case 7: { fl.oor_access = true;   // out-of-range tensor accessors: getTensorValue prints and returns NAN, setTensorValue prints and abort()s
                if (live) { double g = getTensorValue(P.tn[s], sh.size() + (size_t)(c % 2), 0, 0); if (!std::isnan(g)) bad("out-of-range getTensorValue did not return NAN");
                  if (!sh.empty() && sh[0].r * sh[0].c > 0) { g = getTensorValue(P.tn[s], 0, sh[0].r, 0); if (!std::isnan(g)) bad("out-of-range (row) getTensorValue did not return NAN"); } }
                if (d % 8 != 0 || g_skip_abort_ops) break;
                if (live) { expect_abort(true); setTensorValue(P.tn[s], sh.size() + (size_t)(c % 2), 0, 0, 1.0); expect_abort(false); bad("out-of-range setTensorValue returned"); } break; }
      case 8: { double v = payload(d, 7); if (live) TensorSet(P.tn[s], v); for (auto &m : sh) for (auto &r : m.d) for (auto &x : r) x = v; break; }
      case 9: case 10: { int s2 = 1 - s; auto &dst = P.stn[s2];
                if (!dst.empty()) { bool same = dst.size() == sh.size(); if (same) for (size_t k = 0; k < sh.size(); k++) if (dst[k].r != sh[k].r || dst[k].c != sh[k].c) same = false; if (!same) fl.copy_onto_different = true; }
                if (sh.empty() && !dst.empty()) fl.empty_source_copy = true;
                if (live) TensorCopy(P.tn[s], &P.tn[s2]); dst = sh; break; }
    }
    check_tn();
  }
  void op_list(int op, int64_t a, int64_t b, int64_t c, int64_t d) {
    int s = (int)(a % Pools::NL); auto &sh = P.sls[s];
    switch (op % 4) {
      case 0: { if (c % 3 == 0) { size_t n = (size_t)(b % 4); if (live) { DelDVectorList(&P.ls[s]); NewDVectorList(&P.ls[s], n); } sh.assign(n, SV()); break; }
                if (live) { DelDVectorList(&P.ls[s]); initDVectorList(&P.ls[s]); } sh.clear(); break; }
      case 1: case 2: { int v = (int)(b % Pools::NV); if (live) DVectorListAppend(P.ls[s], P.dv[v]); sh.push_back(P.sdv[v]); break; }
      case 3: { if (sh.empty()) break; size_t k = (size_t)b % sh.size(); if (sh[k].empty()) break; size_t q = (size_t)c % sh[k].size(); double v = payload(d, 8);   // mutate the stored copy: the source vector must not change
                if (live) P.ls[s]->d[k]->data[q] = v; sh[k][q] = v; break; }
    }
    check_ls(); check_dv();
  }

  void run_ops(const std::vector<int64_t> &p) {
    start();
    for (size_t k = 0; k + 5 < p.size() + 0 && k + 6 <= p.size(); k += 6) {
      step = (int)(k / 6);
      int kind = (int)(((p[k] % NKINDS) + NKINDS) % NKINDS), op = (int)std::llabs(p[k + 1]);
      int64_t a = std::llabs(p[k + 2]), b = std::llabs(p[k + 3]), c = std::llabs(p[k + 4]), d = std::llabs(p[k + 5]);
      bool del_before = deleted_something;
      switch (kind) {
        case K_DVEC: op_dvec(op, a, b, c, d); break;
        case K_UIVEC: op_uivec(op, a, b, c, d); break;
        case K_IVEC: op_ivec(op, a, b, c, d); break;
        case K_STRVEC: op_strvec(op, a, b, c, d); break;
        case K_MATRIX: op_matrix(op, a, b, c, d); break;
        case K_TENSOR: op_tensor(op, a, b, c, d); break;
        case K_LIST: op_list(op, a, b, c, d); break;
      }
      if (del_before) fl.op_after_delete = true;
    }
    finish();
  }
};

inline void classify(const std::vector<int64_t> &p, Flags &fl) { Interp it(false); it.run_ops(p); fl = it.fl; }
inline void run(const std::vector<int64_t> &p, bool live) { Interp it(live); it.run_ops(p); }

}  // namespace c14
