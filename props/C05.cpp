// C05 — cross-validation predictions are out-of-sample and cover every object once.
#include "modelgen.hpp"
#include <mutex>
using namespace vf;
using namespace orc;

enum Learner { L_PLS = 0, L_MLR = 1, L_LDA = 2 };
static AlgorithmType algo_of(int l) { return l == L_PLS ? _PLS_ : l == L_MLR ? _MLR_ : _LDA_; }
static const char *lname[] = {"PLS", "MLR", "LDA"};

// ---- refit through the public model API --------------------------------------------------------
static M refit_predict(int learner, const M &Xtr, const M &Ytr, const M &Xte, int nlv, int xs, int ys) {
  matrix *xtr = to_lib(Xtr), *ytr = to_lib(Ytr), *xte = to_lib(Xte), *out; initMatrix(&out);
  if (learner == L_PLS) { PLSMODEL *m; NewPLSModel(&m); PLS(xtr, ytr, (size_t)nlv, xs, ys, m, NULL); PLSYPredictorAllLV(xte, m, NULL, out); DelPLSModel(&m); }
  else if (learner == L_MLR) { MLRMODEL *m; NewMLRModel(&m); MLR(xtr, ytr, m, NULL); MLRPredictY(xte, NULL, m, out, NULL, NULL, NULL); DelMLRModel(&m); }
  else { LDAMODEL *m; NewLDAModel(&m); LDA(xtr, ytr, m); matrix *pf, *pr, *mn; initMatrix(&pf); initMatrix(&pr); initMatrix(&mn); LDAPrediction(xte, m, pf, pr, mn, out); DelMatrix(&pf); DelMatrix(&pr); DelMatrix(&mn); DelLDAModel(&m); }
  M R = from_lib(out);
  DelMatrix(&xtr); DelMatrix(&ytr); DelMatrix(&xte); DelMatrix(&out);
  return R;
}
static M rows_of(const M &A, const std::vector<int> &idx) { M R((int)idx.size(), A.c); for (size_t i = 0; i < idx.size(); i++) for (int j = 0; j < A.c; j++) R((int)i, j) = A(idx[i], j); return R; }

// ---- data --------------------------------------------------------------------------------------
struct Data { int learner, n, p, ny, nlv, xs, ys; M X, Y; };
static Data gen_data(Draw &d, Case &c, int learner, int minfold_train) {
  Data D; D.learner = learner;
  if (learner == L_LDA) {
    int K = (int)d.i(2, 3), start = d.coin(50) ? 1 : 0; D.p = (int)d.i(1, 3);
    std::vector<int> nk(K); D.n = 0; for (auto &x : nk) { x = (int)d.i(6, 10); D.n += x; }
    D.ny = 1; D.nlv = 0; D.xs = D.ys = 0; D.X = M(D.n, D.p); D.Y = M(D.n, 1);
    auto z = d.ivec((size_t)D.n * D.p, -1000, 1000); auto cen = d.ivec((size_t)K * D.p, -6, 6);
    std::vector<int> order(D.n); int r = 0; for (int k = 0; k < K; k++) for (int i = 0; i < nk[k]; i++) order[r++] = k;
    for (int i = D.n - 1; i > 0; i--) std::swap(order[i], order[(int)d.i(0, i)]);
    for (int i = 0; i < D.n; i++) { D.Y(i, 0) = order[i] + start; for (int j = 0; j < D.p; j++) D.X(i, j) = (double)cen[(size_t)order[i] * D.p + j] * 2 + (double)z[(size_t)i * D.p + j] / 700.0; }
    c.tags.push_back(start ? "lda-labels-from-1" : "lda-labels-from-0");
  } else {
    D.ny = (int)d.i(1, 3);
    D.p = (int)d.i(1, 6);
    D.n = std::min(30, std::max(6, D.p + 4 + minfold_train + (int)d.sz(0, 18)));
    D.xs = (int)d.i(0, 5); D.ys = (int)d.i(0, 5);
    RegData R = gen_regression(d, D.n, D.p, D.ny, 1.5, D.xs, D.ys);
    D.X = R.X; D.Y = R.Y;
    D.nlv = learner == L_PLS ? (int)d.i(1, std::min(D.p, 3)) : 0;
  }
  return D;
}
static int scol_of(const Data &D) { return D.learner == L_PLS ? D.ny * D.nlv : D.ny; }
static void put_data(Case &c, const Data &D) { c.p.insert(c.p.end(), {D.learner, D.n, D.p, D.ny, D.nlv, D.xs, D.ys}); put(c, D.X); put(c, D.Y); }
static Data read_data(Reader &rd) { Data D; D.learner = (int)rd.i(); D.n = (int)rd.i(); D.p = (int)rd.i(); D.ny = (int)rd.i(); D.nlv = (int)rd.i(); D.xs = (int)rd.i(); D.ys = (int)rd.i(); D.X = rd.mat(D.n, D.p); D.Y = rd.mat(D.n, D.ny); return D; }

struct CvOut { M pred, res; };
static bool g_stale_out = false;
// kind 0 LOO, 1 KFold (labels), 2 bootstrap (groups, iterations)
static CvOut run_cv(const Data &D, const M &Y, int kind, int threads, const std::vector<int> &labels, int groups, int iters) {
  // result containers: fresh, or (g_stale_out) already sized with ANOTHER shape and stale content - the three routines size their outputs
  matrix *mx = to_lib(D.X), *my = to_lib(Y), *py, *pr;
  if (g_stale_out) { NewMatrix(&py, (size_t)D.n, (size_t)scol_of(D) + 1); MatrixSet(py, 555.0); NewMatrix(&pr, (size_t)D.n + 1, (size_t)scol_of(D)); MatrixSet(pr, -555.0); }
  else { initMatrix(&py); initMatrix(&pr); }
  MODELINPUT in = initModelInput(); in.mx = mx; in.my = my; in.nlv = (size_t)D.nlv; in.xautoscaling = (size_t)D.xs; in.yautoscaling = (size_t)D.ys;
  if (kind == 0) LeaveOneOut(&in, algo_of(D.learner), py, pr, (size_t)threads, NULL, 0);
  else if (kind == 1) { uivector *g; NewUIVector(&g, labels.size()); for (size_t i = 0; i < labels.size(); i++) g->data[i] = (size_t)labels[i]; KFoldCV(&in, g, algo_of(D.learner), py, pr, (size_t)threads, NULL, 0); DelUIVector(&g); }
  else BootstrapRandomGroupsCV(&in, (size_t)groups, (size_t)iters, algo_of(D.learner), py, pr, (size_t)threads, NULL, 0);
  CvOut o; o.pred = from_lib(py); o.res = from_lib(pr);
  DelMatrix(&mx); DelMatrix(&my); DelMatrix(&py); DelMatrix(&pr);
  return o;
}
static void check_common(const Data &D, const CvOut &o, const M &expect, const char *who) {
  int sc = scol_of(D);
  VF_CHECK(o.pred.r == D.n && o.pred.c == sc, "%s(%s): predicted_y is %dx%d, expected %dx%d", who, lname[D.learner], o.pred.r, o.pred.c, D.n, sc);
  VF_CHECK(o.res.r == D.n && o.res.c == sc, "%s(%s): pred_residuals is %dx%d, expected %dx%d", who, lname[D.learner], o.res.r, o.res.c, D.n, sc);
  ld ymax = maxabs(D.Y) + 1;
  for (int i = 0; i < D.n; i++) for (int cidx = 0; cidx < sc; cidx++) {
    ld a = o.pred(i, cidx), b = expect(i, cidx);
    VF_CHECK(std::isfinite((double)a), "%s(%s): prediction (%d,%d) is not finite", who, lname[D.learner], i, cidx);
    if (!(fabsl(a - b) <= 1e-9L * (fabsl(b) + ymax)))
      fail(fmt("%s(%s): prediction of object %d, column %d = %.15Lg but a model refitted on the other folds predicts %.15Lg (n=%d p=%d ny=%d nlv=%d)", who, lname[D.learner], i, cidx, a, b, D.n, D.p, D.ny, D.nlv));
    ld rres = a - D.Y(i, cidx % D.ny);
    if (!(fabsl(o.res(i, cidx) - rres) <= 8 * EPS * (fabsl(a) + fabsl(D.Y(i, cidx % D.ny))) + 1e-300L))
      fail(fmt("%s(%s): pred_residuals[%d][%d] = %.15Lg but prediction - observed response %d = %.15Lg (ny=%d nlv=%d)", who, lname[D.learner], i, cidx, o.res(i, cidx), cidx % D.ny, rres, D.ny, D.nlv));
  }
}
// changing one object's own response must not change its prediction
static M perturb(const Data &D, int obj) {
  M Y2 = D.Y;
  if (D.learner == L_LDA) { ld mn = 1e9, mx = -1e9; for (int i = 0; i < D.n; i++) { mn = std::min(mn, D.Y(i, 0)); mx = std::max(mx, D.Y(i, 0)); } Y2(obj, 0) = D.Y(obj, 0) == mn ? mx : mn; }
  else for (int j = 0; j < D.ny; j++) Y2(obj, j) = (double)(D.Y(obj, j) * -3 + 1000 * (maxabs(D.Y) + 1));
  return Y2;
}
static void check_independence(const Data &D, const CvOut &o, const CvOut &o2, int obj, const char *who) {
  for (int cidx = 0; cidx < o.pred.c; cidx++)
    VF_CHECK((double)o.pred(obj, cidx) == (double)o2.pred(obj, cidx), "%s(%s): the prediction of object %d (column %d) changed from %.17Lg to %.17Lg when only that object's own response was changed: it leaks into its own model",
             who, lname[D.learner], obj, cidx, o.pred(obj, cidx), o2.pred(obj, cidx));
}

// ------------------------------------------------------------------------------------------------
static void gen_loo(Draw &d, Case &c) {
  int learner = (int)d.pick<int>({L_PLS, L_PLS, L_MLR, L_LDA});
  Data D = gen_data(d, c, learner, 0);
  int threads = (int)d.i(1, 8), obj = (int)d.i(0, D.n - 1);
  put_data(c, D); c.p.push_back(threads); c.p.push_back(obj);
  c.nontrivial = (D.ny >= 2 && D.nlv >= 2) || D.n % threads != 0;
  c.tags.push_back(std::string("learner=") + lname[learner]); c.tags.push_back(fmt("threads=%d", threads));
}
static void pred_loo(const Case &c) {
  Reader rd(c); Data D = read_data(rd); int threads = (int)rd.i(), obj = (int)rd.i();
  g_stale_out = ((threads + (int)c.v.size()) % 3 == 0); if (g_stale_out) tag("outputs=pre-sized-other-shape");
  CvOut o = run_cv(D, D.Y, 0, threads, {}, 0, 0);
  M expect(D.n, scol_of(D));
  for (int i = 0; i < D.n; i++) { std::vector<int> tr; for (int j = 0; j < D.n; j++) if (j != i) tr.push_back(j); M P = refit_predict(D.learner, rows_of(D.X, tr), rows_of(D.Y, tr), rows_of(D.X, {i}), D.nlv, D.xs, D.ys); for (int q = 0; q < P.c; q++) expect(i, q) = P(0, q); }
  check_common(D, o, expect, "LeaveOneOut");
  M Y2 = perturb(D, obj); CvOut o2 = run_cv(D, Y2, 0, threads, {}, 0, 0);
  check_independence(D, o, o2, obj, "LeaveOneOut");
}

static void gen_kfold(Draw &d, Case &c) {
  int learner = (int)d.pick<int>({L_PLS, L_PLS, L_MLR, L_LDA});   // modelvalidation.h lists LDA for every scheme
  int style = (int)d.i(0, 2);    // 0 balanced round-robin, 1 unbalanced random, 2 label values with a gap
  int ng = (int)d.i(2, 6);
  Data D = gen_data(d, c, learner, 6);
  std::vector<int> lab(D.n);
  auto r = d.ivec(D.n, 0, ng - 1);
  for (int i = 0; i < D.n; i++) lab[i] = style == 0 ? i % ng : (int)r[i];
  if (style == 2) for (auto &l : lab) if (l >= 1) l += 1;   // label 1 never used
  // every training fold must keep enough objects for the learner (n - largest fold >= p + 4)
  std::map<int, int> cnt; for (int l : lab) cnt[l]++;
  int largest = 0; for (auto &kv : cnt) largest = std::max(largest, kv.second);
  if (D.n - largest < D.p + 4 || cnt.size() < 2) for (int i = 0; i < D.n; i++) lab[i] = (i % ng) + (style == 2 && i % ng >= 1 ? 1 : 0);
  int threads = (int)d.i(1, 8), obj = (int)d.i(0, D.n - 1);
  put_data(c, D); c.p.push_back(threads); c.p.push_back(obj); for (int l : lab) c.p.push_back(l);
  c.nontrivial = style != 0 || (D.ny >= 2 && D.nlv >= 2);
  c.tags.push_back(std::string("learner=") + lname[learner]); c.tags.push_back(style == 0 ? "labels=round-robin" : style == 1 ? "labels=unbalanced" : "labels=gap-in-values");
}
static void pred_kfold(const Case &c) {
  Reader rd(c); Data D = read_data(rd); int threads = (int)rd.i(), obj = (int)rd.i();
  g_stale_out = ((threads + (int)c.v.size()) % 3 == 0); if (g_stale_out) tag("outputs=pre-sized-other-shape");
  std::vector<int> lab(D.n); for (auto &l : lab) l = (int)rd.i();
  CvOut o = run_cv(D, D.Y, 1, threads, lab, 0, 0);
  int gmax = *std::max_element(lab.begin(), lab.end());
  M expect(D.n, scol_of(D)); std::vector<int> seen(D.n, 0);
  for (int g = 0; g <= gmax; g++) {
    std::vector<int> tr, te;
    for (int g2 = 0; g2 <= gmax; g2++) for (int i = 0; i < D.n; i++) if (lab[i] == g2) (g2 == g ? te : tr).push_back(i);   // the order the group matrix lists them
    if (te.empty()) continue;
    M P = refit_predict(D.learner, rows_of(D.X, tr), rows_of(D.Y, tr), rows_of(D.X, te), D.nlv, D.xs, D.ys);
    for (size_t k = 0; k < te.size(); k++) { seen[te[k]]++; for (int q = 0; q < P.c; q++) expect(te[k], q) = P((int)k, q); }
  }
  for (int i = 0; i < D.n; i++) VF_CHECK(seen[i] == 1, "harness: object %d in %d test folds", i, seen[i]);
  check_common(D, o, expect, "KFoldCV");
  M Y2 = perturb(D, obj); CvOut o2 = run_cv(D, Y2, 1, threads, lab, 0, 0);
  check_independence(D, o, o2, obj, "KFoldCV");
}

// ---- bootstrap: fold matrices come from hook H4 -----------------------------------------------------
static std::mutex g_mu; static std::vector<std::pair<unsigned, M>> g_folds;
static void fold_hook(const void *gid, unsigned int seed) { std::lock_guard<std::mutex> lk(g_mu); g_folds.push_back({seed, from_lib((const matrix *)gid)}); }
static void check_partition(const M &G, int n, int groups, const char *who) {
  VF_CHECK(G.r == groups && G.c == (n + groups - 1) / groups, "%s: fold matrix is %dx%d for %d objects in %d groups", who, G.r, G.c, n, groups);
  std::vector<int> cnt(n, 0);
  for (int i = 0; i < G.r; i++) for (int j = 0; j < G.c; j++) { int a = (int)G(i, j); if (a == -1) continue; VF_CHECK(a >= 0 && a < n && (ld)a == G(i, j), "%s: fold matrix entry %.17Lg is not an object index", who, G(i, j)); cnt[a]++; }
  for (int a = 0; a < n; a++) VF_CHECK(cnt[a] == 1, "%s: object %d appears %d times in the fold matrix (n=%d groups=%d)", who, a, cnt[a], n, groups);
}
static void gen_boot(Draw &d, Case &c) {
  int learner = (int)d.pick<int>({L_PLS, L_PLS, L_MLR, L_LDA});
  Data D = gen_data(d, c, learner, 8);
  // groups: every training fold keeps enough objects; LDA: at most 3 objects leave per fold
  int gmin = 2; while (D.n - (D.n + gmin - 1) / gmin < (learner == L_LDA ? D.n - 3 : D.p + 5) && gmin < D.n) gmin++;
  int groups = (int)d.i(gmin, D.n);
  int iters = (int)d.i(1, 12);
  std::vector<int> divs; for (int t = 1; t <= 8; t++) if (iters % t == 0) divs.push_back(t);
  int threads = divs[(size_t)d.i(0, (int64_t)divs.size() - 1)], obj = (int)d.i(0, D.n - 1);
  put_data(c, D); c.p.insert(c.p.end(), {groups, iters, threads, obj});
  c.nontrivial = D.n % groups != 0 || (D.ny >= 2 && D.nlv >= 2);
  c.tags.push_back(std::string("learner=") + lname[learner]); c.tags.push_back(fmt("threads=%d", threads)); c.tags.push_back(D.n % groups ? "groups-do-not-divide-n" : "groups-divide-n");
}
static void pred_boot(const Case &c) {
  Reader rd(c); Data D = read_data(rd); int groups = (int)rd.i(), iters = (int)rd.i(), threads = (int)rd.i(), obj = (int)rd.i();
  g_stale_out = ((threads + (int)c.v.size()) % 3 == 0); if (g_stale_out) tag("outputs=pre-sized-other-shape");
  libsci_verif_fold_hook = fold_hook; g_folds.clear();
  CvOut o = run_cv(D, D.Y, 2, threads, {}, groups, iters);
  libsci_verif_fold_hook = nullptr;
  VF_CHECK((int)g_folds.size() == iters, "BootstrapRandomGroupsCV built %zu fold matrices for %d iterations with %d threads", g_folds.size(), iters, threads);
  std::sort(g_folds.begin(), g_folds.end(), [](const std::pair<unsigned, M> &a, const std::pair<unsigned, M> &b) { return a.first < b.first; });
  for (size_t k = 1; k < g_folds.size(); k++) VF_CHECK(g_folds[k].first != g_folds[k - 1].first, "two bootstrap iterations used the same seed %u", g_folds[k].first);
  int sc = scol_of(D); M sum(D.n, sc); std::vector<int> cnt(D.n, 0);
  for (auto &f : g_folds) {
    check_partition(f.second, D.n, groups, "BootstrapRandomGroupsCV");
    const M &G = f.second;
    for (int g = 0; g < G.r; g++) {
      std::vector<int> tr, te;
      for (int g2 = 0; g2 < G.r; g2++) for (int j = 0; j < G.c; j++) { int a = (int)G(g2, j); if (a != -1) (g2 == g ? te : tr).push_back(a); }
      if (te.empty()) continue;
      M P = refit_predict(D.learner, rows_of(D.X, tr), rows_of(D.Y, tr), rows_of(D.X, te), D.nlv, D.xs, D.ys);
      for (size_t k = 0; k < te.size(); k++) { cnt[te[k]]++; for (int q = 0; q < sc; q++) sum(te[k], q) += P((int)k, q); }
    }
  }
  M expect(D.n, sc);
  for (int i = 0; i < D.n; i++) { VF_CHECK(cnt[i] == iters, "object %d was predicted %d times in %d iterations", i, cnt[i], iters); for (int q = 0; q < sc; q++) expect(i, q) = sum(i, q) / cnt[i]; }
  check_common(D, o, expect, "BootstrapRandomGroupsCV");
  M Y2 = perturb(D, obj); CvOut o2 = run_cv(D, Y2, 2, threads, {}, groups, iters);
  check_independence(D, o, o2, obj, "BootstrapRandomGroupsCV");
}

// ---- partition functions called directly ---------------------------------------------------------------
static void gen_part(Draw &d, Case &c) {
  int n = (int)d.i(1, 30); c.p = {n, d.i(1, 1000000), d.i(0, 100)};
  auto v = d.ivec((size_t)n * 3, -1000, 1000); for (auto x : v) c.v.push_back((double)x);
  c.nontrivial = true; c.tags = {"all-group-counts-1..n"};
}
static void pred_part(const Case &c) {
  int n = (int)c.p[0]; unsigned seed0 = (unsigned)c.p[1]; double frac = c.p[2] / 100.0;
  M X(n, 2), Y(n, 1); for (int i = 0; i < n; i++) { X(i, 0) = c.v[(size_t)i * 3]; X(i, 1) = c.v[(size_t)i * 3 + 1] + i * 5000.0; Y(i, 0) = i; }   // Y holds the row id
  matrix *mx = to_lib(X), *my = to_lib(Y);
  for (int groups = 1; groups <= n; groups++) {
    unsigned seed = seed0 + (unsigned)groups * 7919u; matrix *gid; initMatrix(&gid);
    random_kfold_group_generator(gid, (size_t)groups, (size_t)n, &seed);
    M G = from_lib(gid); check_partition(G, n, groups, "random_kfold_group_generator");
    for (int g = 0; g < groups; g++) {
      matrix *xtr, *ytr, *xte, *yte; initMatrix(&xtr); initMatrix(&ytr); initMatrix(&xte); initMatrix(&yte);
      kfold_group_train_test_split(mx, my, gid, (size_t)g, xtr, ytr, xte, yte);
      std::vector<int> where(n, 0);
      VF_CHECK(xtr->row == ytr->row && xte->row == yte->row && (int)(xtr->row + xte->row) == n, "kfold_group_train_test_split: %zu training + %zu test rows for %d objects", xtr->row, xte->row, n);
      for (size_t i = 0; i < ytr->row; i++) { int a = (int)ytr->data[i][0]; where[a] += 1; VF_CHECK(xtr->data[i][1] == (double)X(a, 1), "training row %zu: x and y rows do not belong together", i); }
      for (size_t i = 0; i < yte->row; i++) { int a = (int)yte->data[i][0]; where[a] += 10; VF_CHECK(xte->data[i][1] == (double)X(a, 1), "test row %zu: x and y rows do not belong together", i); bool ing = false; for (int j = 0; j < G.c; j++) if ((int)G(g, j) == a) ing = true; VF_CHECK(ing, "test row holds object %d which is not in group %d", a, g); }
      for (int a = 0; a < n; a++) VF_CHECK(where[a] == 1 || where[a] == 10, "object %d is in %s (group %d of %d, n=%d)", a, where[a] == 11 ? "both the training and the test part" : where[a] == 0 ? "neither part" : "a part more than once", g, groups, n);
      DelMatrix(&xtr); DelMatrix(&ytr); DelMatrix(&xte); DelMatrix(&yte);
    }
    DelMatrix(&gid);
  }
  {
    matrix *xtr, *ytr, *xte, *yte; initMatrix(&xtr); initMatrix(&ytr); initMatrix(&xte); initMatrix(&yte); uivector *ids; initUIVector(&ids); unsigned seed = seed0;
    train_test_split(mx, my, frac, xtr, ytr, xte, yte, ids, &seed);
    int nte = (int)std::ceil(frac * n);
    VF_CHECK((int)xte->row == nte && (int)xtr->row == n - nte && (int)ids->size == nte, "train_test_split(%.2f): %zu test, %zu training rows, %zu ids for %d objects", frac, xte->row, xtr->row, ids->size, n);
    std::vector<int> where(n, 0);
    for (size_t i = 0; i < ids->size; i++) { VF_CHECK(ids->data[i] < (size_t)n, "test id out of range"); VF_CHECK((int)yte->data[i][0] == (int)ids->data[i], "test row %zu is not the object named by its id", i); where[ids->data[i]] += 10; }
    for (size_t i = 0; i < ytr->row; i++) where[(int)ytr->data[i][0]] += 1;
    for (int a = 0; a < n; a++) VF_CHECK(where[a] == 1 || where[a] == 10, "train_test_split: object %d in both / neither part", a);
    DelMatrix(&xtr); DelMatrix(&ytr); DelMatrix(&xte); DelMatrix(&yte); DelUIVector(&ids);
  }
  DelMatrix(&mx); DelMatrix(&my);
}

Property &vf::property() {
  static Property p{
      "C05",
      "data sets of 6..30 objects, 1..6 variables, 1..3 responses (LDA: 2..3 classes of 6..10 objects, labels from 0 or 1); learners PLS "
      "(nlv 1..3, scalings 0..5), MLR, LDA; leave-one-out and user-labelled k-fold (round-robin, unbalanced, label values with a gap) with "
      "1..8 threads; bootstrap random groups with groups up to n, 1..12 iterations and every thread count dividing them, the fold matrices "
      "actually used reported by hook H4; partition functions called directly for every group count 1..n. Oracle: refit through the public "
      "model API on exactly the other folds, bit-identity of an object's prediction when only its own response changes, partition "
      "predicates, residual = prediction - matching response column. Non-trivial: groups do not divide n, or ny >= 2 with nlv >= 2, or "
      "unbalanced / gapped user labels.",
      {
          {"loo", gen_loo, pred_loo, 320, 2000, 100},
          {"kfold", gen_kfold, pred_kfold, 400, 2500, 100},
          {"bootstrap", gen_boot, pred_boot, 240, 1500, 100},
          {"partition", gen_part, pred_part, 400, 3000, 100},
      }};
  return p;
}
