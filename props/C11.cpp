// C11 — dense matrix/vector/tensor kernels compute their textbook definitions for all shapes.
#include "common.hpp"
using namespace vf;
using namespace orc;

static const int MAXD = 17;

static bool shape_nontrivial(int inner, bool anyempty, int k) {
  return (inner >= 4 && inner % 4 != 0) || anyempty || std::abs(k) >= 4;
}

// ------------------------------------------------------------------------------------------------
// matmul_allshapes: one value pool, EVERY shape (m,k,n) in 0..17^3 taken as leading sub-blocks.
static void gen_matmul_all(Draw &d, Case &c) {
  bool mixed = d.coin(50);
  int kmin = -6, kmax = 6;
  c.p = {mixed ? 1 : 0};
  auto a = gen_values(d, MAXD * MAXD, kmin, kmax, mixed);
  auto b = gen_values(d, MAXD * MAXD, kmin, kmax, mixed);
  c.v.insert(c.v.end(), a.begin(), a.end());
  c.v.insert(c.v.end(), b.begin(), b.end());
  c.tags = {mixed ? "mixed-magnitudes" : "one-magnitude"};
  c.nontrivial = true;
}
// which: 0 the dispatcher, 1 / 2 the two public kernels it dispatches to (both declared in matrix.h, callable for every shape)
static void check_product(const M &A, const M &B, const char *what, int which = 0) {
  matrix *a = to_lib(A), *b = to_lib(B), *r;
  NewMatrix(&r, A.r, B.c);
  if (which == 1) MatrixDotProduct_(a, b, r); else if (which == 2) MatrixDotProduct_LOOP_UNROLLING(a, b, r); else MatrixDotProduct(a, b, r);
  VF_CHECK((int)r->row == A.r && (int)r->col == B.c, "%s: output shape changed to %s", what, dims(r).c_str());
  M C, Cabs; mul_abs(A, B, C, Cabs);
  for (int i = 0; i < A.r; i++) for (int j = 0; j < B.c; j++) {
    ld tol = tol_T1(A.c, Cabs(i, j));
    if (!(std::isfinite(r->data[i][j]) && fabsl(r->data[i][j] - C(i, j)) <= tol))
      fail(fmt("%s %dx%d * %dx%d: cell (%d,%d) got %.17g expected %.17Lg tol %.3Lg", what, A.r, A.c, B.r, B.c, i, j,
               r->data[i][j], C(i, j), tol));
  }
  DelMatrix(&a); DelMatrix(&b); DelMatrix(&r);
}
static M block(const M &A, int r, int c) { M B(r, c); for (int i = 0; i < r; i++) for (int j = 0; j < c; j++) B(i, j) = A(i, j); return B; }
static void pred_matmul_all(const Case &c) {
  Reader rd(c);
  M A = rd.mat(MAXD, MAXD), B = rd.mat(MAXD, MAXD);
  const bool full = getenv("VERIF_TIER") && std::string(getenv("VERIF_TIER")) == "thorough";
  tag(full ? "all-5832-shapes" : "1500-shape-grid");
  for (int m = 0; m <= MAXD; m++) for (int k = 0; k <= MAXD; k++) for (int n = 0; n <= MAXD; n++) {
    // quick tier: every inner dimension with every (m,n) on a coarse+edge grid plus a seventh of the rest (~1500 shapes);
    // thorough tier: all 18^3 = 5832 shapes
    if (!full && !((m <= 2 || m == 5 || m == MAXD) && (n <= 2 || n == 4 || n == MAXD)) && ((m * 31 + k * 17 + n) % 7 != 0)) continue;
    check_product(block(A, m, k), block(B, k, n), "MatrixDotProduct");
    if ((m + k + n) % 3 == 0) { check_product(block(A, m, k), block(B, k, n), "MatrixDotProduct_", 1); check_product(block(A, m, k), block(B, k, n), "MatrixDotProduct_LOOP_UNROLLING", 2); }
  }
}

// matmul: random single shapes + algebraic laws
static void gen_matmul(Draw &d, Case &c) {
  int m = (int)d.i(0, MAXD), k = (int)d.i(0, MAXD), n = (int)d.i(0, MAXD);
  bool mixed = d.coin(40);
  int k0 = (int)d.i(-6, 6);
  c.p = {m, k, n};
  int lo = mixed ? -6 : k0, hi = mixed ? 6 : k0;
  for (int t = 0; t < 3; t++) {
    auto x = gen_values(d, (size_t)(t == 0 ? m * k : k * n), lo, hi, mixed);
    c.v.insert(c.v.end(), x.begin(), x.end());
  }
  c.nontrivial = shape_nontrivial(k, m == 0 || k == 0 || n == 0, mixed ? 6 : k0);
  c.tags.push_back(fmt("inner%%4=%d", k % 4));
  if (k < 4) c.tags.push_back("inner<4(non-unrolled)");
  if (m == 0 || k == 0 || n == 0) c.tags.push_back("empty-dim");
  if (mixed) c.tags.push_back("mixed-magnitudes");
}
static M lib_mul(const M &A, const M &B) {
  matrix *a = to_lib(A), *b = to_lib(B), *r; NewMatrix(&r, A.r, B.c);
  MatrixDotProduct(a, b, r);
  M R = from_lib(r); DelMatrix(&a); DelMatrix(&b); DelMatrix(&r); return R;
}
static M lib_tr(const M &A) {
  matrix *a = to_lib(A), *r; NewMatrix(&r, A.c, A.r);
  MatrixTranspose(a, r);
  M R = from_lib(r); DelMatrix(&a); DelMatrix(&r); return R;
}
static void pred_matmul(const Case &c) {
  Reader rd(c);
  int m = (int)rd.i(), k = (int)rd.i(), n = (int)rd.i();
  M A = rd.mat(m, k), B = rd.mat(k, n), C = rd.mat(k, n);
  check_product(A, B, "MatrixDotProduct");
  // both raw kernels directly (the dispatcher picks one of them)
  {
    matrix *a = to_lib(A), *b = to_lib(B), *r1, *r2; NewMatrix(&r1, m, n); NewMatrix(&r2, m, n);
    MatrixDotProduct_(a, b, r1);
    if (k >= 4) MatrixDotProduct_LOOP_UNROLLING(a, b, r2); else MatrixDotProduct_(a, b, r2);
    M R, Rabs; mul_abs(A, B, R, Rabs);
    for (int i = 0; i < m; i++) for (int j = 0; j < n; j++) {
      VF_CLOSE(r1->data[i][j], R(i, j), tol_T1(k, Rabs(i, j)), "MatrixDotProduct_");
      VF_CLOSE(r2->data[i][j], R(i, j), tol_T1(k, Rabs(i, j)), "MatrixDotProduct_LOOP_UNROLLING");
    }
    DelMatrix(&a); DelMatrix(&b); DelMatrix(&r1); DelMatrix(&r2);
  }
  // (AB)^T = B^T A^T
  M AB = lib_mul(A, B), ABt = lib_tr(AB), BtAt = lib_mul(lib_tr(B), lib_tr(A));
  M R, Rabs; mul_abs(A, B, R, Rabs);
  VF_CHECK(ABt.r == n && ABt.c == m && BtAt.r == n && BtAt.c == m, "transpose law: shapes");
  for (int i = 0; i < n; i++) for (int j = 0; j < m; j++)
    VF_CLOSE(ABt(i, j), BtAt(i, j), 2 * tol_T1(k, Rabs(j, i)), "(AB)^T = B^T A^T");
  // A(B+C) = AB + AC
  M BC = rounded(add(B, C));
  M L = lib_mul(A, BC), AC = lib_mul(A, C);
  M R2, R2abs; mul_abs(A, C, R2, R2abs);
  for (int i = 0; i < m; i++) for (int j = 0; j < n; j++) {
    ld t = 4 * (tol_T1(k, Rabs(i, j)) + tol_T1(k, R2abs(i, j)));
    VF_CLOSE(L(i, j), AB(i, j) + AC(i, j), t, "A(B+C) = AB + AC");
  }
  // transpose is an involution (exact)
  M Att = lib_tr(lib_tr(A));
  for (size_t i = 0; i < A.a.size(); i++) VF_CHECK((double)Att.a[i] == (double)A.a[i], "transpose involution differs at %zu", i);
}

// ------------------------------------------------------------------------------------------------
// matvec: M*v and v'*M, single- and multi-threaded entry points, every shape in the sweep
static void gen_matvec(Draw &d, Case &c) {
  bool mixed = d.coin(50);
  int np = (int)d.pick<int>({1, 1, 2, 3, 5, 8, 20});
  c.p = {np, mixed ? 1 : 0};
  auto a = gen_values(d, MAXD * MAXD, -6, 6, mixed);
  auto x = gen_values(d, MAXD, -6, 6, mixed);
  c.v.insert(c.v.end(), a.begin(), a.end());
  c.v.insert(c.v.end(), x.begin(), x.end());
  c.nontrivial = true;
  c.tags = {fmt("nproc=%d", np), "all-324-shapes"};
}
static void pred_matvec(const Case &c) {
  Reader rd(c);
  int np = (int)rd.i(); rd.i();
  M A = rd.mat(MAXD, MAXD); V x = rd.vec(MAXD);
  for (int r = 0; r <= MAXD; r++) for (int cc = 0; cc <= MAXD; cc++) {
    M B = block(A, r, cc);
    matrix *m = to_lib(B);
    for (int mt = 0; mt < 2; mt++) {
      libsci_verif_nproc = (size_t)(mt ? np : 1);
      // m * v
      V v(x.begin(), x.begin() + cc); dvector *dv = to_lib(v), *p; NewDVector(&p, r);
      if (mt) MT_MatrixDVectorDotProduct(m, dv, p); else MatrixDVectorDotProduct(m, dv, p);
      VF_CHECK((int)p->size == r, "M*v output resized");
      for (int i = 0; i < r; i++) {
        ld s = 0, sa = 0; for (int j = 0; j < cc; j++) { ld t = B(i, j) * v[j]; s += t; sa += fabsl(t); }
        VF_CLOSE(p->data[i], s, tol_T1(cc, sa), mt ? "MT_MatrixDVectorDotProduct" : "MatrixDVectorDotProduct");
      }
      DelDVector(&dv); DelDVector(&p);
      // v' * m
      V w(x.begin(), x.begin() + r); dvector *dw = to_lib(w), *q; NewDVector(&q, cc);
      if (mt) MT_DVectorMatrixDotProduct(m, dw, q); else DVectorMatrixDotProduct(m, dw, q);
      for (int j = 0; j < cc; j++) {
        ld s = 0, sa = 0; for (int i = 0; i < r; i++) { ld t = B(i, j) * w[i]; s += t; sa += fabsl(t); }
        VF_CLOSE(q->data[j], s, tol_T1(r, sa), mt ? "MT_DVectorMatrixDotProduct" : "DVectorMatrixDotProduct");
      }
      DelDVector(&dw); DelDVector(&q);
    }
    DelMatrix(&m);
  }
}

// ------------------------------------------------------------------------------------------------
// outer products
static void gen_outer(Draw &d, Case &c) {
  int n1 = (int)d.i(0, MAXD), n2 = (int)d.i(0, MAXD);
  int outmode = (int)d.i(0, 3);   // 0: pre-sized, 1: empty (initMatrix), 2: rows match only, 3: cols match only
  int orow = n1, ocol = n2;
  if (outmode == 2) ocol = (int)d.i(0, MAXD);
  if (outmode == 3) orow = (int)d.i(0, MAXD);
  bool mixed = d.coin(30);
  c.p = {n1, n2, outmode, orow, ocol};
  auto a = gen_values(d, n1, -6, 6, mixed), b = gen_values(d, n2, -6, 6, mixed);
  c.v.insert(c.v.end(), a.begin(), a.end()); c.v.insert(c.v.end(), b.begin(), b.end());
  c.tags.push_back(n1 > n2 ? "|v1|>|v2|" : n1 == n2 ? "|v1|=|v2|" : "|v1|<|v2|");
  c.tags.push_back(fmt("outmode=%d", outmode));
  c.nontrivial = n1 != n2 || outmode != 0;
}
static void pred_outer(const Case &c) {
  Reader rd(c);
  int n1 = (int)rd.i(), n2 = (int)rd.i(), outmode = (int)rd.i(), orow = (int)rd.i(), ocol = (int)rd.i();
  V a = rd.vec(n1), b = rd.vec(n2);
  dvector *da = to_lib(a), *db = to_lib(b);
  {
    matrix *m; NewMatrix(&m, n1, n2);
    RowColOuterProduct(da, db, m);
    for (int i = 0; i < n1; i++) for (int j = 0; j < n2; j++)
      VF_CLOSE(m->data[i][j], a[i] * b[j], 4 * EPS * fabsl(a[i] * b[j]) + 1e-300L, "RowColOuterProduct");
    DelMatrix(&m);
  }
  {
    matrix *m;
    if (outmode == 1) initMatrix(&m); else NewMatrix(&m, orow, ocol);
    DVectorTrasposedDVectorDotProduct(da, db, m);
    VF_CHECK((int)m->row == n1 && (int)m->col == n2, "DVectorTrasposedDVectorDotProduct: |v1|=%d |v2|=%d, output given as %dx%d (mode %d) came back %s",
             n1, n2, orow, ocol, outmode, dims(m).c_str());
    for (int i = 0; i < n1; i++) for (int j = 0; j < n2; j++)
      VF_CLOSE(m->data[i][j], a[i] * b[j], 4 * EPS * fabsl(a[i] * b[j]) + 1e-300L, "DVectorTrasposedDVectorDotProduct");
    DelMatrix(&m);
  }
  DelDVector(&da); DelDVector(&db);
}

// ------------------------------------------------------------------------------------------------
// unary: transpose, trace, norms, covariance, column/row statistics
static void gen_unary(Draw &d, Case &c) {
  int r = (int)d.i(0, MAXD), cc = (int)d.i(0, MAXD);
  if (d.coin(25)) cc = r;                       // squares for the trace
  bool mixed = d.coin(30);
  int k0 = (int)d.i(-6, 6);
  c.p = {r, cc};
  auto a = gen_values(d, (size_t)r * cc, mixed ? -6 : k0, mixed ? 6 : k0, mixed);
  if (r * cc > 0 && d.coin(15)) {               // a few columns whose sum cancels exactly
    int j = (int)d.i(0, cc - 1);
    if (r >= 2) { a[(size_t)0 * cc + j] = -a[(size_t)1 * cc + j]; for (int i = 2; i < r; i++) a[(size_t)i * cc + j] = 0; c.tags.push_back("zero-sum-column"); }
  }
  c.v = a;
  c.nontrivial = r == 0 || cc == 0 || std::abs(k0) >= 4 || mixed;
  if (r == 0 || cc == 0) c.tags.push_back("empty-dim");
  if (r == cc) c.tags.push_back("square");
  c.tags.push_back(fmt("|k|>=4:%d", (int)(std::abs(k0) >= 4)));
}
static void pred_unary(const Case &c) {
  Reader rd(c);
  int r = (int)rd.i(), cc = (int)rd.i();
  M A = rd.mat(r, cc);
  matrix *m = to_lib(A);
  // trace
  if (r == cc) {
    ld s = 0, sa = 0; for (int i = 0; i < r; i++) { s += A(i, i); sa += fabsl(A(i, i)); }
    VF_CLOSE(MatrixTrace(m), s, tol_T1(r, sa), "MatrixTrace");
  }
  // Frobenius norm
  {
    ld s = 0; for (ld x : A.a) s += x * x;
    VF_CLOSE(Matrixnorm(m), sqrtl(s), 64 * (r * cc + 2) * EPS * sqrtl(s) + 1e-300L, "Matrixnorm");
  }
  ld amax = maxabs(A);
  // column statistics
  if (r >= 1) {
    dvector *avg; initDVector(&avg); MatrixColAverage(m, avg);
    VF_CHECK((int)avg->size == cc, "MatrixColAverage size %zu != %d", avg->size, cc);
    for (int j = 0; j < cc; j++) {
      ld s = 0, sa = 0; for (int i = 0; i < r; i++) { s += A(i, j); sa += fabsl(A(i, j)); }
      VF_CLOSE(avg->data[j], s / r, tol_T1(r, sa / r), "MatrixColAverage");
    }
    DelDVector(&avg);
    dvector *rms; initDVector(&rms); MatrixColRMS(m, rms);
    for (int j = 0; j < cc; j++) {
      ld s = 0; for (int i = 0; i < r; i++) s += A(i, j) * A(i, j);
      ld ref = sqrtl(s / r);
      VF_CLOSE(rms->data[j], ref, 64 * (r + 2) * EPS * ref + 1e-300L, "MatrixColRMS");
    }
    DelDVector(&rms);
    for (int j = 0; j < cc; j++) {
      double mn, mx; MatrixColumnMinMax(m, j, &mn, &mx);
      ld rmn = A(0, j), rmx = A(0, j); for (int i = 1; i < r; i++) { rmn = std::min(rmn, A(i, j)); rmx = std::max(rmx, A(i, j)); }
      VF_CHECK(mn == (double)rmn && mx == (double)rmx, "MatrixColumnMinMax col %d: got (%g,%g) expected (%Lg,%Lg)", j, mn, mx, rmn, rmx);
    }
  }
  if (cc >= 1) {
    dvector *avg; initDVector(&avg); MatrixRowAverage(m, avg);
    VF_CHECK((int)avg->size == r, "MatrixRowAverage size");
    for (int i = 0; i < r; i++) {
      ld s = 0, sa = 0; for (int j = 0; j < cc; j++) { s += A(i, j); sa += fabsl(A(i, j)); }
      VF_CLOSE(avg->data[i], s / cc, tol_T1(cc, sa / cc), "MatrixRowAverage");
    }
    DelDVector(&avg);
  }
  if (r >= 2) {
    dvector *sd, *var; initDVector(&sd); initDVector(&var);
    MatrixColSDEV(m, sd); MatrixColVar(m, var);
    V mu(cc, 0);
    for (int j = 0; j < cc; j++) {
      for (int i = 0; i < r; i++) mu[j] += A(i, j); mu[j] /= r;
      ld ss = 0, sad = 0; for (int i = 0; i < r; i++) { ld dd = A(i, j) - mu[j]; ss += dd * dd; sad += fabsl(dd); }
      ld refv = ss / (r - 1);
      // forward bound: d_i carries an absolute error of ~ r*eps*max|x|
      ld tolv = 64 * (r + 2) * EPS * (ss + 2 * sad * amax * r) / (r - 1) + 1e-300L;
      VF_CLOSE(var->data[j], refv, tolv, "MatrixColVar");
      ld refs = sqrtl(refv);
      ld tols = refs > 0 ? tolv / refs + 8 * EPS * refs : sqrtl(tolv);
      VF_CLOSE(sd->data[j], refs, tols, "MatrixColSDEV");
    }
    DelDVector(&sd); DelDVector(&var);
    // covariance: definition, symmetry, positive semi-definiteness
    matrix *cm; initMatrix(&cm); MatrixCovariance(m, cm);
    VF_CHECK((int)cm->row == cc && (int)cm->col == cc, "MatrixCovariance shape %s", dims(cm).c_str());
    M Cv(cc, cc); ld ctol = 0;
    for (int i = 0; i < cc; i++) for (int j = 0; j < cc; j++) {
      ld s = 0, sa = 0, sd1 = 0, sd2 = 0;
      for (int k = 0; k < r; k++) { ld t = (A(k, i) - mu[i]) * (A(k, j) - mu[j]); s += t; sa += fabsl(t); sd1 += fabsl(A(k, i) - mu[i]); sd2 += fabsl(A(k, j) - mu[j]); }
      ld tol = 64 * (r + 2) * EPS * (sa + (sd1 + sd2) * amax * r) / (r - 1) + 1e-300L;
      VF_CLOSE(cm->data[i][j], s / (r - 1), tol, "MatrixCovariance");
      VF_CLOSE(cm->data[i][j], cm->data[j][i], 2 * tol, "MatrixCovariance symmetry");
      Cv(i, j) = (cm->data[i][j] + cm->data[j][i]) / 2; ctol = std::max(ctol, tol);
    }
    if (cc >= 1) {
      V ev; M evec; jacobi_eig(Cv, ev, evec);
      VF_CHECK(ev.back() >= -(cc + 1) * ctol * 4, "MatrixCovariance not PSD: min eigenvalue %Lg (tol %Lg)", ev.back(), ctol);
    }
    DelMatrix(&cm);
  }
  // normalised matrix A / |A|_F
  if (r >= 1 && cc >= 1) {
    ld s = 0; for (ld x : A.a) s += x * x; s = sqrtl(s);
    matrix *nm; NewMatrix(&nm, (size_t)r, (size_t)cc); MatrixNorm(m, nm);
    for (int i = 0; i < r; i++) for (int j = 0; j < cc; j++) {
      ld ref = s > 0 ? A(i, j) / s : 0;
      VF_CLOSE(nm->data[i][j], ref, 64 * (r * cc + 2) * EPS * fabsl(ref) + 1e-300L, "MatrixNorm (A / Frobenius norm)");
    }
    DelMatrix(&nm);
  }
  // descriptive statistics table (no missing cells here): mean, median, harmonic mean, variances, deviations, min, max, zero count
  if (r >= 2 && cc >= 1) {
    matrix *ds; initMatrix(&ds); MatrixColDescStat(m, ds);
    VF_CHECK((int)ds->row == cc && (int)ds->col == 13, "MatrixColDescStat table shape %s for %d columns", dims(ds).c_str(), cc);
    for (int j = 0; j < cc; j++) {
      ld sum = 0, sa = 0; std::vector<double> col; bool amb = false, haszero = false; ld hs = 0, hsa = 0; int nz = 0;
      for (int i = 0; i < r; i++) { double x = (double)A(i, j); sum += x; sa += fabsl(x); col.push_back(x); if (x == 0) { haszero = true; nz++; } else { if (fabs(x) < 1e-5) amb = true; hs += 1 / (ld)x; hsa += fabsl(1 / (ld)x); } }
      ld mu = sum / r, ss = 0, sad = 0; for (int i = 0; i < r; i++) { ld dd = A(i, j) - mu; ss += dd * dd; sad += fabsl(dd); }
      VF_CLOSE(ds->data[j][0], mu, tol_T1(r, sa / r), "MatrixColDescStat mean");
      std::sort(col.begin(), col.end()); ld med = r % 2 ? (ld)col[r / 2] : ((ld)col[r / 2] + (ld)col[r / 2 - 1]) / 2;
      VF_CLOSE(ds->data[j][1], med, 4 * EPS * fabsl(med) + 1e-300L, "MatrixColDescStat median");
      ld tolss = 64 * (r + 2) * EPS * (ss + 2 * sad * amax * r) + 1e-300L;
      VF_CLOSE(ds->data[j][3], ss / r, tolss / r, "MatrixColDescStat population variance");
      VF_CLOSE(ds->data[j][4], ss / (r - 1), tolss / (r - 1), "MatrixColDescStat sample variance");
      { ld ref = sqrtl(ss / r), t = tolss / r; VF_CLOSE(ds->data[j][5], ref, ref > 0 ? t / ref + 8 * EPS * ref : sqrtl(t), "MatrixColDescStat population sd"); }
      { ld ref = sqrtl(ss / (r - 1)), t = tolss / (r - 1); VF_CLOSE(ds->data[j][6], ref, ref > 0 ? t / ref + 8 * EPS * ref : sqrtl(t), "MatrixColDescStat sample sd"); }
      VF_CHECK(ds->data[j][9] == col.front() && ds->data[j][10] == col.back(), "MatrixColDescStat min/max of column %d: (%g, %g), expected (%g, %g)", j, ds->data[j][9], ds->data[j][10], col.front(), col.back());
      if (!amb) VF_CHECK(ds->data[j][11] == (double)nz, "MatrixColDescStat zero count of column %d: %g, expected %d", j, ds->data[j][11], nz);
      VF_CHECK(ds->data[j][12] == 0, "MatrixColDescStat missing count %g in a column without missing cells", ds->data[j][12]);
      if (!haszero && hs != 0) { ld ref = r / hs, t = r * 64 * (r + 2) * EPS * hsa / (hs * hs); if (t < fabsl(ref)) VF_CLOSE(ds->data[j][2], ref, t + 8 * EPS * fabsl(ref), "MatrixColDescStat harmonic mean"); }
    }
    DelMatrix(&ds);
  }
  // column centring
  if (r >= 2 && cc >= 1) {
    matrix *mc; NewMatrix(&mc, (size_t)r, (size_t)cc); MeanCenteredMatrix(m, mc);
    for (int j = 0; j < cc; j++) { ld sum = 0; for (int i = 0; i < r; i++) sum += A(i, j); ld mu = sum / r;
      for (int i = 0; i < r; i++) VF_CLOSE(mc->data[i][j], A(i, j) - mu, 64 * (r + 2) * EPS * amax + 1e-300L, "MeanCenteredMatrix"); }
    DelMatrix(&mc);
  }
  // block-wise transpose of a tensor
  if (r >= 1 && cc >= 1) {
    tensor *t1, *t2; NewTensor(&t1, 2); NewTensor(&t2, 2);
    for (size_t k = 0; k < 2; k++) { NewTensorMatrix(t1, k, (size_t)r, (size_t)cc); NewTensorMatrix(t2, k, (size_t)cc, (size_t)r); for (int i = 0; i < r; i++) for (int j = 0; j < cc; j++) t1->m[k]->data[i][j] = (double)A(i, j) * (double)(k + 1); }
    TensorTranspose(t1, t2);
    for (size_t k = 0; k < 2; k++) for (int i = 0; i < r; i++) for (int j = 0; j < cc; j++)
      VF_CHECK(t2->m[k]->data[j][i] == t1->m[k]->data[i][j], "TensorTranspose block %zu (%d,%d): %g != %g", k, j, i, t2->m[k]->data[j][i], t1->m[k]->data[i][j]);
    DelTensor(&t1); DelTensor(&t2);
  }
  DelMatrix(&m);
}

// ------------------------------------------------------------------------------------------------
// sort
static void gen_sort(Draw &d, Case &c) {
  int r = (int)d.i(0, MAXD), cc = (int)d.i(1, MAXD);
  int key = (int)d.i(0, cc - 1);
  bool ties = d.coin(40);
  c.p = {r, cc, key, d.coin(50) ? 1 : 0};
  auto a = gen_values(d, (size_t)r * cc, -6, 6, d.coin(50));
  if (ties) { auto t = d.ivec(r, -2, 2); for (int i = 0; i < r; i++) a[(size_t)i * cc + key] = (double)t[i]; c.tags.push_back("tied-keys"); }
  c.v = a;
  c.nontrivial = r >= 3 && cc >= 2;
  c.tags.push_back(c.p[3] ? "reverse" : "forward");
}
static void pred_sort(const Case &c) {
  Reader rd(c);
  int r = (int)rd.i(), cc = (int)rd.i(), key = (int)rd.i(), rev = (int)rd.i();
  M A = rd.mat(r, cc);
  matrix *m = to_lib(A);
  if (rev) MatrixReverseSort(m, key); else MatrixSort(m, key);
  VF_CHECK((int)m->row == r && (int)m->col == cc, "sort changed the shape");
  for (int i = 0; i + 1 < r; i++)
    VF_CHECK(rev ? m->data[i][key] >= m->data[i + 1][key] : m->data[i][key] <= m->data[i + 1][key],
             "rows %d,%d not ordered by key column %d", i, i + 1, key);
  std::vector<std::vector<double>> in(r), out(r);
  for (int i = 0; i < r; i++) for (int j = 0; j < cc; j++) { in[i].push_back((double)A(i, j)); out[i].push_back(m->data[i][j]); }
  std::sort(in.begin(), in.end()); std::sort(out.begin(), out.end());
  VF_CHECK(in == out, "sorted matrix is not a row permutation of the input");
  DelMatrix(&m);
}

// ------------------------------------------------------------------------------------------------
// tensor contractions
static void gen_tensor(Draw &d, Case &c) {
  int o = (int)d.i(1, 4), r = (int)d.i(0, 9), cc = (int)d.i(0, 9);
  bool mixed = d.coin(30);
  c.p = {o, r, cc};
  auto t = gen_values(d, (size_t)o * r * cc, -6, 6, mixed);
  auto v1 = gen_values(d, cc, -6, 6, mixed);      // for TransposedTensorDVectorProduct (size col)
  auto v2 = gen_values(d, r, -6, 6, mixed);       // for DvectorTensorDotProduct (size row)
  auto mm = gen_values(d, (size_t)cc * o, -6, 6, mixed);  // for TensorMatrixDotProduct (col x order)
  for (auto *x : {&t, &v1, &v2, &mm}) c.v.insert(c.v.end(), x->begin(), x->end());
  c.nontrivial = o >= 2 && (r == 0 || cc == 0 || (r != cc));
  c.tags.push_back(fmt("slices=%d", o));
  if (r == 0 || cc == 0) c.tags.push_back("empty-dim");
}
static void pred_tensor(const Case &c) {
  Reader rd(c);
  int o = (int)rd.i(), r = (int)rd.i(), cc = (int)rd.i();
  std::vector<M> T; for (int k = 0; k < o; k++) T.push_back(rd.mat(r, cc));
  V v1 = rd.vec(cc), v2 = rd.vec(r); M mm = rd.mat(cc, o);
  tensor *t; NewTensor(&t, o);
  for (int k = 0; k < o; k++) { NewTensorMatrix(t, k, r, cc); for (int i = 0; i < r; i++) for (int j = 0; j < cc; j++) t->m[k]->data[i][j] = (double)T[k](i, j); }
  {  // p[k][i] = sum_j t[k][i][j] v[j]
    dvector *dv = to_lib(v1); matrix *p; NewMatrix(&p, o, r);
    TransposedTensorDVectorProduct(t, dv, p);
    for (int k = 0; k < o; k++) for (int i = 0; i < r; i++) {
      ld s = 0, sa = 0; for (int j = 0; j < cc; j++) { ld x = T[k](i, j) * v1[j]; s += x; sa += fabsl(x); }
      VF_CLOSE(p->data[k][i], s, tol_T1(cc, sa), "TransposedTensorDVectorProduct");
    }
    DelDVector(&dv); DelMatrix(&p);
  }
  {  // m[j][k] = sum_i v[i] t[k][i][j]
    dvector *dv = to_lib(v2); matrix *m; NewMatrix(&m, cc, o);
    DvectorTensorDotProduct(t, dv, m);
    for (int k = 0; k < o; k++) for (int j = 0; j < cc; j++) {
      ld s = 0, sa = 0; for (int i = 0; i < r; i++) { ld x = T[k](i, j) * v2[i]; s += x; sa += fabsl(x); }
      VF_CLOSE(m->data[j][k], s, tol_T1(r, sa), "DvectorTensorDotProduct");
    }
    DelDVector(&dv); DelMatrix(&m);
  }
  {  // v[i] = sum_k sum_j t[k][i][j] m[j][k]
    matrix *m = to_lib(mm); dvector *v; NewDVector(&v, r);
    TensorMatrixDotProduct(t, m, v);
    for (int i = 0; i < r; i++) {
      ld s = 0, sa = 0; for (int k = 0; k < o; k++) for (int j = 0; j < cc; j++) { ld x = T[k](i, j) * mm(j, k); s += x; sa += fabsl(x); }
      VF_CLOSE(v->data[i], s, tol_T1((size_t)o * cc, sa), "TensorMatrixDotProduct");
    }
    DelMatrix(&m); DelDVector(&v);
  }
  {  // Kronecker: out[k][i][j] = v[i] * m[j][k]   (order = m.col, rows = |v|, cols = m.row)
    dvector *dv = to_lib(v2); matrix *m = to_lib(mm);   // v2 size r, mm cc x o
    tensor *out; NewTensor(&out, o);
    for (int k = 0; k < o; k++) NewTensorMatrix(out, k, r, cc);
    if (o > 0) KronekerProductVectorMatrix(dv, m, out);
    for (int k = 0; k < o; k++) for (int i = 0; i < r; i++) for (int j = 0; j < cc; j++)
      VF_CLOSE(out->m[k]->data[i][j], v2[i] * mm(j, k), 4 * EPS * fabsl(v2[i] * mm(j, k)) + 1e-300L, "KronekerProductVectorMatrix");
    DelTensor(&out); DelDVector(&dv); DelMatrix(&m);
  }
  DelTensor(&t);
}

Property &vf::property() {
  static Property p{
      "C11",
      "kernels vs long-double textbook loops (T1 bound 64*n*eps*sum|terms|); shapes 0..17 per dimension (matmul_allshapes / "
      "matvec sweep every shape inside each case), values +-m*10^k, k in [-6,6], one magnitude per matrix or mixed; tensors "
      "of 1..4 slices. Non-trivial: inner dimension >=4 with non-zero residue mod 4, or an empty dimension, or |k|>=4 / mixed "
      "magnitudes (outer: |v1|!=|v2| or output not pre-sized; sort: >=3 rows and >=2 columns).",
      {
          {"matmul", gen_matmul, pred_matmul, 1600, 20000, 100},
          {"matmul_allshapes", gen_matmul_all, pred_matmul_all, 8, 24, 100},
          {"matvec", gen_matvec, pred_matvec, 40, 160, 100},
          {"outer", gen_outer, pred_outer, 1200, 15000, 100},
          {"unary", gen_unary, pred_unary, 1600, 20000, 100},
          {"sort", gen_sort, pred_sort, 800, 8000, 100},
          {"tensor", gen_tensor, pred_tensor, 800, 8000, 100},
      }};
  return p;
}
