// C04 — PLS regression is a correct least-squares family (OLS limit, betas, monotone, affine equivariance).
#include "modelgen.hpp"
using namespace vf;
using namespace orc;

static void gen_c04(Draw &d, Case &c) {
  int p = (int)d.sz(1, 10);
  int n = std::min(40, std::max(6, p + 3 + (int)d.sz(0, 25)));
  int ny = d.coin(55) ? 1 : (int)d.i(2, 3);
  int xopt = (int)d.i(-1, 5), yopt = (int)d.i(-1, 5);
  if (ny == 1 && d.coin(40)) yopt = 0;                 // the affine-equivariance clause is stated for a centred response
  bool design = d.coin(20);
  RegData R = design ? gen_design_regression(d, n, p, ny, xopt, yopt) : gen_regression(d, n, p, ny, 2.5, xopt, yopt);
  if (design) c.tags.push_back("orthogonal-design");
  int nnew = (int)d.i(1, 5);
  M N(nnew, p);
  for (int i = 0; i < nnew; i++) for (int j = 0; j < p; j++) N(i, j) = (double)(R.X((int)d.i(0, n - 1), j) + d.dyadic(2000, 8));
  // affine map of the response: c in +-[0.1, 50], d in [-100, 100]
  double cc = (d.coin(50) ? 1 : -1) * d.real(0.1, 50), dd = d.real(-100, 100);
  c.p = {n, p, ny, xopt, yopt, nnew};
  put(c, R.X); put(c, R.Y); put(c, N); c.v.push_back(cc); c.v.push_back(dd);
  Prep Px = ref_preprocess(R.X, xopt);
  int rank = numerical_rank(singular_values(Px.X), 1e-9L);
  c.nontrivial = rank >= 3 && R.noise > 0;
  c.tags.push_back(fmt("ny=%d", ny)); c.tags.push_back(fmt("noise=%g", R.noise));
  c.tags.push_back(fmt("xscaling=%d", xopt)); c.tags.push_back(fmt("yscaling=%d", yopt));
  c.tags.push_back(fmt("rank=%d", std::min(rank, 10)));
}

struct Model { PLSMODEL *m; matrix *mx, *my; };
static Model fitpls(const M &X, const M &Y, int nlv, int xopt, int yopt) {
  Model r; r.mx = to_lib(X); r.my = to_lib(Y); NewPLSModel(&r.m);
  PLS(r.mx, r.my, (size_t)nlv, xopt, yopt, r.m, NULL);
  return r;
}
static void freemodel(Model &r) { DelPLSModel(&r.m); DelMatrix(&r.mx); DelMatrix(&r.my); }

static void pred_c04(const Case &c) {
  Reader rd(c);
  int n = (int)rd.i(), p = (int)rd.i(), ny = (int)rd.i(), xopt = (int)rd.i(), yopt = (int)rd.i(), nnew = (int)rd.i();
  M X = rd.mat(n, p), Y = rd.mat(n, ny), N = rd.mat(nnew, p);
  double cc = rd.d(), dd = rd.d();
  Prep Px = ref_preprocess(X, xopt), Py = ref_preprocess(Y, yopt);
  V dEx = prep_col_bound(X, Px, xopt);
  V sv = singular_values(Px.X);
  int rank = numerical_rank(sv, 1e-9L);
  VF_CHECK(rank >= 1, "generator: rank 0");
  ld kappa = sv[0] / sv[rank - 1];
  int nlv = rank;
  Model f = fitpls(X, Y, nlv, xopt, yopt);
  VF_CHECK((int)f.m->b->size == nlv && (int)f.m->recalculated_y->col == ny * nlv, "PLS produced %zu LVs for nlv=%d", f.m->b->size, nlv);
  M RY = from_lib(f.m->recalculated_y);
  VF_CHECK(all_finite(RY), "recalculated_y not finite (n=%d p=%d ny=%d x/y scaling %d/%d)", n, p, ny, xopt, yopt);
  V ymean(ny, 0), yscale(ny, 1);
  if (yopt >= 0) for (int j = 0; j < ny; j++) { ymean[j] = Py.mean[j]; yscale[j] = Py.scale[j]; }

  // (1) OLS limit: with rank(Xp) latent variables the fit is the projection of Yp on the column space of Xp
  if (rank == p) {
    M B; VF_CHECK(lstsq(Px.X, Py.X, B), "oracle lstsq failed");
    M F = mul(Px.X, B);
    for (int j = 0; j < ny; j++) {
      ld ny2 = 0; for (int i = 0; i < n; i++) ny2 += Py.X(i, j) * Py.X(i, j);
      ld tol = 1e3L * (n + p) * EPS * kappa * kappa * sqrtl(ny2) * fabsl(yscale[j]) + 64 * EPS * fabsl(ymean[j]) + 1e-300L;
      for (int i = 0; i < n; i++) {
        ld ref = F(i, j) * yscale[j] + ymean[j];
        if (!(fabsl(RY(i, ny * (nlv - 1) + j) - ref) <= tol))
          fail(fmt("OLS limit: fitted response %d of object %d with %d LVs = %.15Lg but the least-squares fit is %.15Lg (tol %.3Lg, kappa %.3Lg, x/y scaling %d/%d)", j, i, nlv, RY(i, ny * (nlv - 1) + j), ref, tol, kappa, xopt, yopt));
      }
    }
  }
  // (2) RSS non-increasing / R2 non-decreasing in the LV count
  {
    matrix *r2; initMatrix(&r2);
    PLSRegressionStatistics(f.my, f.m->recalculated_y, r2, NULL, NULL);
    VF_CHECK((int)r2->row == nlv && (int)r2->col == ny, "PLSRegressionStatistics table shape %s", dims(r2).c_str());
    for (int j = 0; j < ny; j++) {
      ld mu = 0; for (int i = 0; i < n; i++) mu += Y(i, j); mu /= n;
      ld tss = 0; for (int i = 0; i < n; i++) tss += (Y(i, j) - mu) * (Y(i, j) - mu);
      ld prev = -1;
      for (int a = 1; a <= nlv; a++) {
        ld rss = 0; for (int i = 0; i < n; i++) { ld e = RY(i, ny * (a - 1) + j) - Y(i, j); rss += e * e; }
        ld slack = 1e-9L * tss + 1e3L * (n + p) * EPS * kappa * kappa * tss;
        if (a > 1) VF_CHECK(rss <= prev + slack, "training RSS of response %d increases from %.12Lg (%d LVs) to %.12Lg (%d LVs)", j, prev, a - 1, rss, a);
        prev = rss;
        ld r2ref = 1 - rss / tss;
        VF_CLOSE(r2->data[a - 1][j], r2ref, 1e-9L + 64 * n * EPS * (1 + rss / tss), "PLSRegressionStatistics R2 vs 1 - RSS/TSS");
        if (a > 1) VF_CHECK(r2->data[a - 1][j] >= r2->data[a - 2][j] - 1e-9L - slack / tss, "R2 of response %d decreases from %.12g to %.12g at %d LVs", j, r2->data[a - 2][j], r2->data[a - 1][j], a);
      }
    }
    DelMatrix(&r2);
  }
  // (3) single response: coefficient form predicts what the score-based predictor predicts
  if (ny == 1) {
    M Z(n + nnew, p); for (int i = 0; i < n; i++) for (int j = 0; j < p; j++) Z(i, j) = X(i, j);
    for (int i = 0; i < nnew; i++) for (int j = 0; j < p; j++) Z(n + i, j) = N(i, j);
    matrix *z = to_lib(Z), *ally; initMatrix(&ally);
    PLSYPredictorAllLV(z, f.m, NULL, ally);
    VF_CHECK((int)ally->row == n + nnew && (int)ally->col == nlv, "PLSYPredictorAllLV shape %s", dims(ally).c_str());
    V xm(p, 0), xs(p, 1); if (xopt >= 0) { xm = Px.mean; xs = Px.scale; }
    for (int a = 1; a <= nlv; a++) {
      dvector *betas; initDVector(&betas);
      PLSBetasCoeff(f.m, (size_t)a, betas);
      VF_CHECK((int)betas->size == p, "PLSBetasCoeff returned %zu coefficients for %d variables", betas->size, p);
      ld ka = sv[0] / sv[a - 1];
      for (int i = 0; i < n + nnew; i++) {
        ld s = 0, sa = 0;
        for (int j = 0; j < p; j++) {
          ld xp = xs[j] == 0 ? 0 : (Z(i, j) - xm[j]) / xs[j]; ld t = xp * betas->data[j]; s += t;
          // the centred value itself carries the rounding of the subtraction x - mean (absolute, not relative to its own size)
          ld dxp = xs[j] == 0 ? 0 : (dEx[j] + 8 * EPS * (fabsl(Z(i, j)) + fabsl(xm[j])) / fabsl(xs[j]));
          sa += fabsl(t) + dxp * fabsl((ld)betas->data[j]) / EPS / (1e3L * (n + p));
        }
        ld ref = s * yscale[0] + ymean[0];
        ld tol = 1e3L * (n + p) * EPS * kappa * ka * (sa * fabsl(yscale[0]) + fabsl((ld)ally->data[i][a - 1] - ymean[0])) + 64 * EPS * fabsl(ymean[0]) + 1e-300L;
        if (!(std::isfinite(betas->data[0]) && fabsl(ally->data[i][a - 1] - ref) <= tol))
          fail(fmt("PLSBetasCoeff(%d LVs) predicts %.15Lg for %s object %d but the score-based predictor gives %.15g (tol %.3Lg, kappa %.3Lg, x/y scaling %d/%d)", a, ref, i < n ? "training" : "unseen", i, ally->data[i][a - 1], tol, kappa, xopt, yopt));
      }
      DelDVector(&betas);
    }
    // (4) affine equivariance of a single centred response: y -> c*y + d
    if (yopt == 0) {
      M Y2(n, 1); for (int i = 0; i < n; i++) Y2(i, 0) = (double)(cc * Y(i, 0) + dd);
      Model g = fitpls(X, Y2, nlv, xopt, yopt);
      matrix *ally2; initMatrix(&ally2);
      PLSYPredictorAllLV(z, g.m, NULL, ally2);
      ld ysd = 0; for (int i = 0; i < n; i++) ysd += Py.X(i, 0) * Py.X(i, 0); ysd = sqrtl(ysd);
      for (int a = 1; a <= nlv; a++) for (int i = 0; i < n + nnew; i++) {
        ld ref = cc * (ld)ally->data[i][a - 1] + dd;
        ld tol = 1e3L * (n + p) * EPS * kappa * kappa * fabsl(cc) * (ysd + fabsl((ld)ally->data[i][a - 1] - ymean[0])) + 64 * EPS * (fabsl(dd) + fabsl(cc * ymean[0])) + 1e-300L;
        if (!(fabsl(ally2->data[i][a - 1] - ref) <= tol))
          fail(fmt("affine equivariance: y -> %.6g*y%+.6g maps the %d-LV prediction of object %d to %.15g, expected %.15Lg (tol %.3Lg)", cc, dd, a, i, ally2->data[i][a - 1], ref, tol));
      }
      DelMatrix(&ally2); freemodel(g);
    }
    DelMatrix(&z); DelMatrix(&ally);
  }
  freemodel(f);
}

Property &vf::property() {
  static Property p{
      "C04",
      "X n x p full column rank (n in [6,40], p in [1,10], singular values over <= 2.5 decades, offsets), Y with 1..3 responses = X B + "
      "noise (0, 1 %, 30 %, 300 % of the signal), all scaling pairs, nlv = rank(X preprocessed), 1..5 unseen rows, response map "
      "y -> c*y + d with c in +-[0.1,50]. Oracle: Householder least squares in long double, definitions of RSS/R2, metamorphic relation. "
      "Tolerance T2 with kappa^2 measured by the oracle SVD. Non-trivial: rank >= 3 and noise > 0.",
      {
          {"least_squares", gen_c04, pred_c04, 2400, 6000, 100},
      }};
  return p;
}
