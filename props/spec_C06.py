"""C06 extras: the free-running cases are replayed under ThreadSanitizer (race oracle)."""
import os, json, subprocess, shutil

RULE = None


def tsan_pass(chk, res, tier, seed, prop="C06", sub="freerun", count_quick=40, count_thorough=600):
    exe = chk.build_harness(prop, extra_ld=chk.extra_ld_of(prop))
    tsan = chk.build_harness(prop, variant="tsan", with_rc=False, extra_cxx=["-DVERIF_NO_SCHED"], tagname=prop + "tsan")
    d = os.path.join(chk.BUILD, "tmp", "emit-%s-%d" % (prop, os.getpid()))
    shutil.rmtree(d, ignore_errors=True)
    os.makedirs(d)
    n = count_thorough if tier == "thorough" else count_quick
    subprocess.run([exe, "--emit", d, "--count", str(n), "--seed", str(seed), "--only", sub], stdout=subprocess.DEVNULL,
                   stderr=subprocess.DEVNULL, env=chk.child_env())
    st = os.path.join(d, "stats.json")
    env = chk.child_env()
    env["TSAN_OPTIONS"] = "exitcode=96:halt_on_error=1:report_signal_unsafe=0"
    # the emitted cases are replayed by several ThreadSanitizer processes (every k-th file each); in the thorough tier each
    # stops opening cases after its wall budget (the count actually replayed is what the evidence reports)
    shards = 8 if tier == "thorough" else 4
    budget = os.environ.get("VERIF_THOROUGH_BUDGET_S", "900") if tier == "thorough" else "0"
    procs = []
    for k in range(shards):
        stk = st + ".%d" % k
        procs.append((subprocess.Popen([tsan, "--replay-dir", d, "--stats", stk, "--verif-dir", chk.VERIF, "--shard", "%d/%d" % (k, shards), "--budget", budget],
                                       stdout=subprocess.PIPE, stderr=subprocess.PIPE, text=True, env=env), stk))
    lines = []; replayed = 0
    for pr, stk in procs:
        o, e = pr.communicate(); lines += o.splitlines()
        if os.path.exists(stk):
            sj = json.load(open(stk)); res.merge_stats(sj); replayed += sum(x.get("evaluations", 0) for x in sj.get("subs", []))
    rdir = os.path.join(chk.VERIF, "evidence", "replay")
    os.makedirs(rdir, exist_ok=True)
    import re
    for line in lines:
        m = re.match(r"FAIL (\S+) replay=(\S+) msg=(.*)", line)
        if m:
            keep = os.path.join(rdir, "%s-tsan-%s" % (prop, os.path.basename(m.group(2))))
            shutil.copy(m.group(2), keep)
            # a race report is schedule dependent: replay three times, any reproduction counts
            hits = 0
            for _ in range(3):
                r = subprocess.run([tsan, "--replay", keep, "--verif-dir", chk.VERIF], stdout=subprocess.PIPE, stderr=subprocess.PIPE, text=True, env=env)
                hits += r.returncode == 1
            if hits >= 1:
                res.violations.append((keep, "ThreadSanitizer: " + m.group(3)))
    res.extra["tsan_cases_emitted"] = len([f for f in os.listdir(d) if f.endswith(".case")])
    res.extra["tsan_cases"] = replayed
    shutil.rmtree(d, ignore_errors=True)


def extra(chk, res, tier, seed):
    tsan_pass(chk, res, tier, seed)


def setup(chk):
    chk.build_harness("C06", variant="tsan", with_rc=False, extra_cxx=["-DVERIF_NO_SCHED"], tagname="C06tsan")
