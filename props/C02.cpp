// C02 — PCA components are the principal axes of the data (spectral correctness, equivariance).
#include "modelgen.hpp"
#include <set>
using namespace vf;
using namespace orc;

static const ld PCACONV = 1e-10L;

static void gen_c02(Draw &d, Case &c) {
  int n = (int)d.sz(4, 40), p = (int)d.sz(2, 10);
  int scaling = (int)d.i(-1, 5);
  int r = std::min(n - 1, p);
  r = std::max(1, d.coin(70) ? r : (int)d.i(1, r));
  bool slow = d.coin(45);
  V s(r); s[0] = 1;
  for (int k = 1; k < r; k++) s[k] = s[k - 1] * (slow && d.coin(60) ? d.real(0.6, 0.85) : d.real(0.05, 0.85));
  double mag = (scaling <= 0) ? (double)d.i(-4, 4) + d.real(-0.3, 0.3) : d.real(-1, 3);
  M X = gen_lowrank(d, n, p, s, mag, true);
  if (scaling >= 1) enforce_scale_domain(X, scaling);
  for (auto &x : X.a) x = (double)x;
  int npc = (int)d.i(1, r);
  // metamorphic partner: 0 row permutation, 1 column permutation, 2 rotation (only meaningful for scaling -1/0)
  int partner = (scaling <= 0) ? (int)d.i(0, 2) : (int)d.i(0, 1);
  c.p = {n, p, scaling, npc, partner};
  if (partner == 0) { for (int i = n - 1; i > 0; i--) c.p.push_back(d.i(0, i)); }
  else if (partner == 1) { for (int j = p - 1; j > 0; j--) c.p.push_back(d.i(0, j)); }
  // processor count seen by the threaded kernels inside PCA (hook H1): the principal axes may not depend on it
  { int r10 = (int)d.i(0, 9); int np = r10 < 6 ? 1 : r10 < 8 ? 2 : 3; c.p.push_back(np); c.tags.push_back(fmt("nproc=%d", np)); }
  put(c, X);
  if (partner == 2) put(c, gen_orthonormal(d, p, p));
  // classification on the oracle spectrum of the preprocessed matrix
  Prep P = ref_preprocess(X, scaling);
  V sv = singular_values(P.X);
  int judged = 0; bool slowgap = false;
  for (int k = 0; k < npc && k + 1 < (int)sv.size() + 1; k++) {
    ld rk = (k + 1 < (int)sv.size() && sv[k] > 0) ? sv[k + 1] / sv[k] : 0;
    if (rk > 0.9L) break;
    judged++; if (rk >= 0.6L) slowgap = true;
  }
  c.nontrivial = judged >= 2 && std::fabs(mag) >= 1;
  c.tags.push_back(fmt("scaling=%d", scaling));
  c.tags.push_back(fmt("partner=%s", partner == 0 ? "row-permutation" : partner == 1 ? "column-permutation" : "rotation"));
  if (slowgap) c.tags.push_back("gap-ratio-in-[0.6,0.9]");
  c.tags.push_back(fmt("magnitude=1e%+d", (int)std::lround(mag)));
  c.tags.push_back(fmt("judged=%d", std::min(judged, 4)));
}

struct Fit { M T, P; V ve; };
static size_t g_nproc = 1;
static Fit fit(const M &X, int scaling, int npc) {
  libsci_verif_nproc = g_nproc;
  matrix *mx = to_lib(X); PCAMODEL *m; NewPCAModel(&m);
  PCA(mx, scaling, (size_t)npc, m, NULL);
  Fit f; f.T = from_lib(m->scores); f.P = from_lib(m->loadings); f.ve = from_lib(m->varexp);
  DelPCAModel(&m); DelMatrix(&mx);
  return f;
}

static void pred_c02(const Case &c) {
  Reader rd(c);
  int n = (int)rd.i(), p = (int)rd.i(), scaling = (int)rd.i(), npc = (int)rd.i(), partner = (int)rd.i();
  std::vector<int> perm;
  if (partner == 0) { perm.resize(n); for (int i = 0; i < n; i++) perm[i] = i; for (int i = n - 1; i > 0; i--) std::swap(perm[i], perm[(int)rd.i()]); }
  if (partner == 1) { perm.resize(p); for (int j = 0; j < p; j++) perm[j] = j; for (int j = p - 1; j > 0; j--) std::swap(perm[j], perm[(int)rd.i()]); }
  { size_t expected = 5 + (partner == 0 ? (size_t)(n - 1) : partner == 1 ? (size_t)(p - 1) : 0); g_nproc = c.p.size() > expected ? (size_t)rd.i() : 1; if (g_nproc < 1 || g_nproc > 64) g_nproc = 1; }
  M X = rd.mat(n, p);
  M Q; if (partner == 2) Q = rd.mat(p, p);
  Prep Pr = ref_preprocess(X, scaling);
  const M &E0 = Pr.X;
  M S = mul(transpose(E0), E0);
  V lam; M Vv; jacobi_eig(S, lam, Vv);
  ld trace = 0; for (ld l : lam) trace += l;
  VF_CHECK(trace > 0, "generator: zero matrix");
  ld t3 = sqrtl((ld)n * PCACONV);
  Fit f = fit(X, scaling, npc);
  VF_CHECK(all_finite(f.T) && all_finite(f.P), "PCA returned non-finite values");
  // judged components: every gap ratio up to k must be <= 0.9 on the oracle spectrum
  ld angle_bound = 0; std::vector<ld> bounds;
  int judged = 0;
  for (int k = 0; k < npc; k++) {
    ld sk = sqrtl(std::max<ld>(lam[k], 0)), sk1 = (k + 1 < p) ? sqrtl(std::max<ld>(lam[k + 1], 0)) : 0;
    ld rk = sk > 0 ? sk1 / sk : 1;
    if (rk > 0.9L || !(lam[k] > 1e-18L * lam[0])) break;
    angle_bound += rk / (1 - rk * rk) * t3;
    bounds.push_back(5 * angle_bound + 64 * (n + p) * EPS * sqrtl(lam[0] / lam[k]));
    judged++;
  }
  tag(fmt("judged-at-runtime=%d", std::min(judged, 4)));
  // NIPALS plateau (known finding pca-nipals-plateau-order, see modelgen.hpp): the judged components are principal axes, but not in order
  {
    bool allaxes = true, inorder = true; std::set<int> used;
    for (int k = 0; k < judged; k++) { int j = matched_axis(Vv, f.P, k); if (j < 0 || used.count(j)) { allaxes = false; break; } used.insert(j); if (j != k) inorder = false; }
    if (allaxes && !inorder) fail_known("pca-nipals-plateau-order", fmt("the first %d components are principal axes of the cross-product matrix but not in the order of their eigenvalues (n=%d p=%d scaling=%d)", judged, n, p, scaling));
  }
  for (int k = 0; k < judged; k++) {
    ld ref = 100 * lam[k] / trace;
    VF_CHECK(fabsl(f.ve[k] - ref) <= ref * (10 * t3 + 2 * bounds[k] * bounds[k] + 1e-9L) + 1e-12L,
             "component %d: explained variance %.12Lg but eigenvalue/trace*100 = %.12Lg (n=%d p=%d scaling=%d)", k, f.ve[k], ref, n, p, scaling);
    ld dotp = 0; for (int j = 0; j < p; j++) dotp += f.P(j, k) * Vv(j, k);
    ld sg = dotp >= 0 ? 1 : -1, dist = 0;
    for (int j = 0; j < p; j++) { ld e = f.P(j, k) - sg * Vv(j, k); dist += e * e; }
    dist = sqrtl(dist);   // = 2 sin(angle/2) ~ angle
    VF_CHECK(dist <= bounds[k], "component %d: loading is %.3Lg away from the eigenvector of the cross-product matrix (bound %.3Lg; n=%d p=%d scaling=%d, gap ratio %.3Lg)",
             k, dist, bounds[k], n, p, scaling, k + 1 < p && lam[k] > 0 ? sqrtl(std::max<ld>(lam[k + 1], 0) / lam[k]) : 0);
  }
  // ---- equivariance -------------------------------------------------------------------------
  M X2(n, p);
  if (partner == 0) for (int i = 0; i < n; i++) for (int j = 0; j < p; j++) X2(i, j) = X(perm[i], j);
  if (partner == 1) for (int i = 0; i < n; i++) for (int j = 0; j < p; j++) X2(i, j) = X(i, perm[j]);
  if (partner == 2) { X2 = mul(X, Q); for (auto &x : X2.a) x = (double)x; }
  Fit g = fit(X2, scaling, npc);
  ld s1 = sqrtl(lam[0]);
  for (int k = 0; k < judged; k++) {
    // expected loading / score of the partner expressed through the original fit
    V pe(p), te(n);
    for (int j = 0; j < p; j++) {
      if (partner == 0) pe[j] = f.P(j, k);
      if (partner == 1) pe[j] = f.P(perm[j], k);
      if (partner == 2) { ld s = 0; for (int q = 0; q < p; q++) s += Q(q, j) * f.P(q, k); pe[j] = s; }
    }
    for (int i = 0; i < n; i++) te[i] = (partner == 0) ? f.T(perm[i], k) : f.T(i, k);
    ld dotp = 0; for (int j = 0; j < p; j++) dotp += pe[j] * g.P(j, k);
    ld sg = dotp >= 0 ? 1 : -1, dist = 0, dt = 0, nt = 0;
    for (int j = 0; j < p; j++) { ld e = g.P(j, k) - sg * pe[j]; dist += e * e; }
    for (int i = 0; i < n; i++) { ld e = g.T(i, k) - sg * te[i]; dt += e * e; nt += te[i] * te[i]; }
    dist = sqrtl(dist); dt = sqrtl(dt);
    ld rot = partner == 2 ? 64 * p * EPS * sqrtl(lam[0] / lam[k]) * (1 + fro(X) / (s1 + 1e-300L)) : 0;   // X*Q was rounded to double
    VF_CHECK(dist <= 2 * bounds[k] + rot, "equivariance (%s): loading %d moved by %.3Lg (bound %.3Lg; scaling=%d)", partner == 0 ? "row permutation" : partner == 1 ? "column permutation" : "rotation", k, dist, 2 * bounds[k] + rot, scaling);
    VF_CHECK(dt <= (2 * bounds[k] + rot) * s1 * 2 + 64 * (n + p) * EPS * fro(X), "equivariance (%s): scores of component %d moved by %.3Lg (bound %.3Lg)", partner == 0 ? "row permutation" : partner == 1 ? "column permutation" : "rotation", k, dt, (2 * bounds[k] + rot) * s1 * 2);
    VF_CHECK(fabsl(g.ve[k] - f.ve[k]) <= f.ve[k] * (20 * t3 + 4 * bounds[k] * bounds[k] + 1e-9L) + 1e-12L + (partner == 2 ? 100 * 64 * p * EPS * (fro(X) / (s1 + 1e-300L)) * (fro(X) / (s1 + 1e-300L)) : 0),
             "equivariance: explained variance of component %d changed from %.12Lg to %.12Lg", k, f.ve[k], g.ve[k]);
  }
}

Property &vf::property() {
  static Property p{
      "C02",
      "X = U diag(s) V^T * 10^k + offsets, n in [4,40], p in [2,10], gap ratios s[j+1]/s[j] <= 0.85 (45 % of the cases draw ratios in "
      "[0.6,0.85]), magnitude k in [-4,4] for scaling -1/0 (columns rescaled into the preprocessing domain for scaling >= 1), all scaling "
      "options; partner = row permutation / column permutation / orthogonal rotation (scaling <= 0). Oracle: cyclic Jacobi on E0'E0 in long "
      "double; only components whose gap ratios on the oracle spectrum of the preprocessed matrix are <= 0.9 are judged; bound T3 = "
      "5*sum_j r_j/(1-r_j^2)*sqrt(n*1e-10). Non-trivial: >= 2 judged components and |k| >= 1.",
      {
          {"principal_axes", gen_c02, pred_c02, 1600, 8000, 100},
      }};
  return p;
}
