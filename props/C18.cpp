// C18 — model fitting terminates with finite leading components on degenerate data.
// Non-termination is decided by the iteration ceiling of hook H3 (deterministic), not by wall-clock time.
#include "modelgen.hpp"
using namespace vf;
using namespace orc;

// integer / dyadic matrix of exact rank r: A = L * R with small integer factors (exact in double), optional duplicated rows,
// constant columns, optional perturbation 2^-40
static M gen_exact_rank(Draw &d, int n, int p, int r, bool perturb) {
  M A(n, p);
  if (r > 0) {
    auto l = d.ivec((size_t)n * r, -4, 4), rr = d.ivec((size_t)r * p, -4, 4);
    for (int i = 0; i < n; i++) for (int j = 0; j < p; j++) { ld s = 0; for (int k = 0; k < r; k++) s += (ld)l[(size_t)i * r + k] * (ld)rr[(size_t)k * p + j]; A(i, j) = s / 4; }
  }
  if (d.coin(40) && n >= 2) { int reps = (int)d.i(1, n - 1); for (int t = 0; t < reps; t++) { int a = (int)d.i(0, n - 1), b = (int)d.i(0, n - 1); for (int j = 0; j < p; j++) A(b, j) = A(a, j); } }
  if (d.coin(40)) { int j = (int)d.i(0, p - 1); double v = (double)d.i(-3, 3); for (int i = 0; i < n; i++) A(i, j) = v; }
  if (perturb) { auto e = d.ivec((size_t)n * p, -8, 8); for (size_t q = 0; q < A.a.size(); q++) A.a[q] += (ld)e[q] / 1099511627776.0L; }
  for (auto &x : A.a) x = (double)x;
  return A;
}
// reference preprocessing including the library's documented zero guard (a column whose scale is below 1e-3 is set to 0):
// perturbations of 2^-40 on a constant column fall below it by nine orders of magnitude
static Prep guarded_preprocess(const M &A, int scaling) {
  Prep P = ref_preprocess(A, scaling);
  if (scaling >= 0) for (int j = 0; j < A.c; j++) if (fabsl(P.scale[j]) < 1e-3L) for (int i = 0; i < A.r; i++) P.X(i, j) = 0;
  return P;
}
static int dup_rows_pct(const M &A) { int dup = 0; for (int i = 0; i < A.r; i++) for (int k = 0; k < i; k++) { bool eq = true; for (int j = 0; j < A.c; j++) if (A(i, j) != A(k, j)) eq = false; if (eq) { dup++; break; } } return A.r ? 100 * dup / A.r : 0; }

// ------------------------------------------------------------------------------------------------
static void gen_pca(Draw &d, Case &c) {
  int n = (int)d.i(2, 12), p = (int)d.i(1, 6), r = (int)d.i(0, std::min(n, p)), scaling = (int)d.i(-1, 5), npc = (int)d.i(1, p + 2);
  bool perturb = d.coin(25);
  M A = gen_exact_rank(d, n, p, r, perturb);
  c.p = {n, p, scaling, npc}; put(c, A);
  Prep P = guarded_preprocess(A, scaling); int rank = numerical_rank(singular_values(P.X), 1e-9L);
  c.nontrivial = npc > rank || dup_rows_pct(A) >= 50;
  c.tags.push_back(fmt("scaling=%d", scaling)); if (npc > rank) c.tags.push_back("npc>rank"); if (rank == 0) c.tags.push_back("rank-0-after-preprocessing"); if (perturb) c.tags.push_back("perturbed-2^-40");
}
static void pred_pca(const Case &c) {
  Reader rd(c); int n = (int)rd.i(), p = (int)rd.i(), scaling = (int)rd.i(), npc = (int)rd.i();
  M A = rd.mat(n, p);
  set_tick_ceiling(200000);
  Prep P = guarded_preprocess(A, scaling); V sv = singular_values(P.X); int rank = numerical_rank(sv, 1e-9L);
  matrix *mx = to_lib(A); PCAMODEL *m; NewPCAModel(&m);
  PCA(mx, scaling, (size_t)npc, m, NULL);
  int got = (int)m->varexp->size, want = std::min(npc, p);
  VF_CHECK(got == want && (int)m->scores->col == want && (int)m->loadings->col == want, "PCA returned %d components, %d requested (p=%d)", got, npc, p);
  M T = from_lib(m->scores), L = from_lib(m->loadings);
  ld ss = 0; for (ld x : P.X.a) ss += x * x;
  // noise floor: the library's preprocessed matrix differs from the exact one by the rounding of the centring / scaling (relative to
  // the column's OFFSET, not to its variation): a perturbed constant column 1 + O(2^-40) centres to values of 1e-12 carrying 1e-16.
  // A component is called "defined" only when its singular value stands clear of that floor, and the floor may show up as variance
  // beyond the rank.
  ld noise2 = 0;
  { V b = prep_col_bound(A, P, scaling); for (int j = 0; j < p; j++) { bool zeroed = true; for (int i = 0; i < n; i++) if (P.X(i, j) != 0) zeroed = false; if (!zeroed || scaling < 1) noise2 += n * b[j] * b[j]; } }
  ld noise = sqrtl(noise2);
  int exact_rank = rank;
  while (rank > 0 && !(sv[rank - 1] > 10 * noise)) rank--;
  if (rank < exact_rank) tag("rank-lowered-by-noise-floor");
  ld beyond = 1e-12L + (ss > 0 ? 400 * 100 * noise2 / ss : 0);
  for (int k = 0; k < want; k++) {
    double ve = m->varexp->data[k];
    VF_CHECK(!std::isnan(ve), "explained variance of component %d is NaN (rank %d, n=%d p=%d scaling=%d)", k, rank, n, p, scaling);
    if (k < rank) {
      for (int i = 0; i < n; i++) VF_CHECK(std::isfinite((double)T(i, k)), "score (%d,%d) of a defined component is not finite", i, k);
      for (int j = 0; j < p; j++) VF_CHECK(std::isfinite((double)L(j, k)), "loading (%d,%d) of a defined component is not finite", j, k);
      // same identities as in the regular case: unit loading, orthogonal to the earlier ones, variance = t't/ss
      ld nn = 0; for (int j = 0; j < p; j++) nn += L(j, k) * L(j, k); VF_CLOSE(nn, 1, 1e-9L, "defined loading has unit length");
      for (int q = 0; q < k; q++) { ld dp = 0; for (int j = 0; j < p; j++) dp += L(j, k) * L(j, q); VF_CHECK(fabsl(dp) <= 1e-6L, "defined loadings %d and %d not orthogonal: %.3Lg", k, q, dp); }
      ld tt = 0; for (int i = 0; i < n; i++) tt += T(i, k) * T(i, k);
      VF_CLOSE(ve, 100 * tt / ss, 1e-6L * (100 * tt / ss) + 1e-9L, "explained variance of a defined component vs t't/ss");
    } else if (k >= exact_rank) VF_CHECK(ve >= 0 && ve <= beyond, "explained variance beyond the rank: component %d has %.3g %% (rank %d, allowed %.3Lg)", k, ve, exact_rank, beyond);
    else VF_CHECK(ve >= 0 && ve <= 100 * (1 + 1e-9), "explained variance of component %d = %.3g %%", k, ve);
  }
  // X0 = T P' + E on the defined components
  if (rank >= 1) {
    int kk = std::min(rank, want); ld nE = sqrtl(ss), err = 0;
    M R = P.X; for (int k = 0; k < kk; k++) for (int i = 0; i < n; i++) for (int j = 0; j < p; j++) R(i, j) -= T(i, k) * L(j, k);
    if (kk == rank) { err = fro(R); ld rest = 0; for (size_t q = (size_t)rank; q < sv.size(); q++) rest += sv[q] * sv[q]; VF_CHECK(err <= 1e-6L * nE + 1e-12L + sqrtl(rest) + 2 * noise, "all %d defined components taken but |X0 - T P'| = %.3Lg (|X0| = %.3Lg)", rank, err, nE); }
  }
  // projecting the training matrix through a model that holds null components: finite, and the defined scores are reproduced
  {
    matrix *ps; initMatrix(&ps); PCAScorePredictor(mx, m, (size_t)want, ps);
    VF_CHECK((int)ps->row == n && (int)ps->col == want, "PCAScorePredictor shape %s for a model with %d components", dims(ps).c_str(), want);
    ld tscale = 0; for (int i = 0; i < n; i++) for (int k = 0; k < want; k++) tscale = std::max(tscale, fabsl(T(i, k)));
    for (int k = 0; k < want; k++) for (int i = 0; i < n; i++) {
      VF_CHECK(std::isfinite(ps->data[i][k]), "PCAScorePredictor: predicted score (%d,%d) is not finite for a model whose component %d is %s (rank %d)", i, k, k, k < rank ? "defined" : "beyond the rank", rank);
      if (k < rank) VF_CHECK(fabsl(ps->data[i][k] - T(i, k)) <= 1e-6L * tscale + 1e-12L + 2 * noise, "PCAScorePredictor(training) (%d,%d) = %.12g, model score %.12Lg", i, k, ps->data[i][k], T(i, k));
    }
    DelMatrix(&ps);
  }
  DelPCAModel(&m); DelMatrix(&mx);
  tag(ticks(0) < 100 ? "pca-iterations<100" : ticks(0) < 10000 ? "pca-iterations<1e4" : "pca-iterations>=1e4");
}

// ------------------------------------------------------------------------------------------------
static void gen_pls(Draw &d, Case &c) {
  int n = (int)d.i(3, 12), p = (int)d.i(1, 5), ny = (int)d.i(1, 2), r = (int)d.i(0, std::min(n, p)), nlv = (int)d.i(1, p + 2);
  int xs = (int)d.i(-1, 5), ys = (int)d.i(-1, 5), ykind = (int)d.i(0, 3);   // 0 generic, 1 constant, 2 two-valued, 3 exactly linear in X
  M X = gen_exact_rank(d, n, p, r, d.coin(20));
  M Y(n, ny); auto yi = d.ivec((size_t)n * ny, -8, 8);
  for (int i = 0; i < n; i++) for (int j = 0; j < ny; j++) Y(i, j) = ykind == 0 ? (double)yi[(size_t)i * ny + j] / 2 : ykind == 1 ? 3.0 : ykind == 2 ? (double)(yi[(size_t)i * ny + j] > 0) : (double)(2 * X(i, 0) + (p > 1 ? X(i, 1) : 0) + j);
  // mixed blocks: one response constant while the other one is not (in either position)
  bool mixed = false;
  if (ny == 2 && ykind != 1 && d.coin(35)) { int jc = (int)d.i(0, 1); double cv = (double)d.i(-3, 3); for (int i = 0; i < n; i++) Y(i, jc) = cv; mixed = true; c.tags.push_back(jc == 0 ? "first-response-constant" : "second-response-constant"); }
  c.p = {n, p, ny, nlv, xs, ys}; put(c, X); put(c, Y);
  Prep P = ref_preprocess(X, xs); int rank = numerical_rank(singular_values(P.X), 1e-9L);
  c.nontrivial = nlv > rank || ykind == 1 || dup_rows_pct(X) >= 50;
  c.tags.push_back(ykind == 0 ? "y=generic" : ykind == 1 ? "y=constant" : ykind == 2 ? "y=two-valued" : "y=exactly-linear"); if (nlv > rank) c.tags.push_back("nlv>rank"); if (rank == 0) c.tags.push_back("x-rank-0");
}
static void pred_pls(const Case &c) {
  Reader rd(c); int n = (int)rd.i(), p = (int)rd.i(), ny = (int)rd.i(), nlv = (int)rd.i(), xs = (int)rd.i(), ys = (int)rd.i();
  M X = rd.mat(n, p), Y = rd.mat(n, ny);
  set_tick_ceiling(200000);
  matrix *mx = to_lib(X), *my = to_lib(Y); PLSMODEL *m; NewPLSModel(&m);
  PLS(mx, my, (size_t)nlv, xs, ys, m, NULL);
  int want = std::min(nlv, p);
  VF_CHECK((int)m->b->size == want && (int)m->xscores->col == want, "PLS returned %zu latent variables, %d requested (p=%d)", m->b->size, nlv, p);
  // the first latent variable is defined whenever X'Y of the preprocessed blocks is not null: finite, t = X0 w
  Prep Px = guarded_preprocess(X, xs), Py = guarded_preprocess(Y, ys);   // with the library's zero guard (scale < 1e-3 -> column 0)
  M C = mul(transpose(Px.X), Py.X);
  if (maxabs(C) > 1e-9L * (fro(Px.X) * fro(Py.X) + 1e-300L)) {
    for (int i = 0; i < n; i++) VF_CHECK(std::isfinite(m->xscores->data[i][0]), "x-score (%d,0) of the first (defined) latent variable is not finite", i);
    for (int j = 0; j < p; j++) VF_CHECK(std::isfinite(m->xweights->data[j][0]) && std::isfinite(m->xloadings->data[j][0]), "weights/loadings of the first (defined) latent variable are not finite");
    VF_CHECK(std::isfinite(m->b->data[0]), "b coefficient of the first (defined) latent variable is not finite");
    for (int i = 0; i < n; i++) { ld s = 0, sa = 0; for (int j = 0; j < p; j++) { s += Px.X(i, j) * m->xweights->data[j][0]; sa += fabsl(Px.X(i, j) * m->xweights->data[j][0]); } VF_CLOSE(m->xscores->data[i][0], s, 1e-9L * (sa + 1e-300L) + 1e-12L, "first x-score vs X0 w"); }
    for (int i = 0; i < n; i++) for (int j = 0; j < ny; j++) VF_CHECK(std::isfinite(m->recalculated_y->data[i][j]), "recalculated response (%d,%d) with one LV is not finite", i, j);
    // same identities as in the regular case: the weight vector has unit length and maximises w'(X0'Y0 Y0'X0)w (it is the dominant
    // eigenvector of that matrix, any vector of the eigenspace when the eigenvalue is repeated), so the score vector is not null
    {
      ld nw = 0; for (int j = 0; j < p; j++) nw += (ld)m->xweights->data[j][0] * m->xweights->data[j][0];
      VF_CHECK(nw > 0, "first weight vector is null although X'Y is not (a defined latent variable came back null)");   // stored weights are rescaled by |p|: not unit length
      M CCt = mul(C, transpose(C)); V ev; M evec; jacobi_eig(CCt, ev, evec);
      ld q = 0; for (int a = 0; a < p; a++) for (int b2 = 0; b2 < p; b2++) q += (ld)m->xweights->data[a][0] * CCt(a, b2) * m->xweights->data[b2][0];
      if (!(q / nw >= ev[0] * (1 - 1e-5L))) {
        // KNOWN FINDING pls-nipals-start-in-invariant-subspace: the iteration starts from the response of largest variance; when
        // X'u of that response is an exact eigenvector of X'Y Y'X other than the dominant one (orthogonal designs: a response that
        // depends on one factor plus an interaction the model does not contain) it stays there.  Signature: w IS an eigenvector.
        ld rn = 0; for (int a = 0; a < p; a++) { ld r = -(q / nw) * m->xweights->data[a][0]; for (int b2 = 0; b2 < p; b2++) r += CCt(a, b2) * m->xweights->data[b2][0]; rn += r * r; }
        std::string msg = fmt("first weight vector: w'(X'Y Y'X)w / w'w = %.6Lg but the largest eigenvalue is %.6Lg", q / nw, ev[0]);
        if (sqrtl(rn) <= 1e-8L * ev[0] * sqrtl(nw)) fail_known("pls-nipals-start-in-invariant-subspace", msg + " (w is an exact eigenvector, not the dominant one)");
        fail(msg);
      }
      ld tt = 0; for (int i = 0; i < n; i++) tt += (ld)m->xscores->data[i][0] * m->xscores->data[i][0];
      VF_CHECK(tt > 0, "first x-score vector is null although X'Y is not");
    }
    tag("first-LV-defined");
  } else tag("first-LV-undefined(X'Y=0)");
  for (size_t k = 0; k < m->xvarexp->size; k++) VF_CHECK(!std::isnan(m->xvarexp->data[k]), "x explained variance of LV %zu is NaN", k);
  // latent variables beyond the rank of X have nothing left to be built from: they must not change the fit
  {
    V svx = singular_values(Px.X); int xrank = numerical_rank(svx, 1e-9L);
    // only when what lies beyond the rank is rounding residue (an exactly rank-deficient X), not a small but genuine direction
    bool exactlow = xrank >= (int)svx.size() || svx[(size_t)xrank] <= 1e-14L * svx[0];
    if (xrank >= 1 && want > xrank && exactlow && all_finite(from_lib(m->recalculated_y))) {
      for (int j = 0; j < ny; j++) { ld sc = 0; for (int i = 0; i < n; i++) sc = std::max(sc, fabsl(Y(i, j)));
        for (int a = xrank; a < want; a++) for (int i = 0; i < n; i++) {
          ld d0 = (ld)m->recalculated_y->data[i][(size_t)ny * a + j] - (ld)m->recalculated_y->data[i][(size_t)ny * (xrank - 1) + j];
          VF_CHECK(fabsl(d0) <= 1e-6L * (sc + 1e-300L), "fitted response %d of object %d changes by %.3Lg when latent variable %d is added although X has rank %d (|y| up to %.3Lg)", j, i, d0, a + 1, xrank, sc);
        }
      }
    }
  }
  DelPLSModel(&m); DelMatrix(&mx); DelMatrix(&my);
}

// ------------------------------------------------------------------------------------------------
// a tied configuration perturbed by 2^-k: two eigenvalues of the consensus problem differ by ~2^-k relative, the power iteration
// needs ~2^k passes to separate them under the 1e-18 threshold - "returns after a bounded number of iterations" must still hold
static void gen_cpca_neartie(Draw &d, Case &c) {
  int k = (int)d.i(18, 30), scaling = d.coin(50) ? 0 : -1; double e = std::ldexp(1.0, -k);
  c.p = {4, 2, scaling, 1, 1, 1};    // two blocks of one variable each
  M A0(4, 1), A1(4, 1); A0(0, 0) = 1; A1(0, 0) = 1; A0(1, 0) = -1; A1(1, 0) = -1; A0(2, 0) = 1 + e; A1(2, 0) = -(1 + e); A0(3, 0) = -(1 + e); A1(3, 0) = 1 + e;
  put(c, A0); put(c, A1);
  c.nontrivial = true; c.tags.push_back(fmt("near-tie-2^-%d", k));
}
static void gen_cpca(Draw &d, Case &c) {
  if (d.coin(12)) { gen_cpca_neartie(d, c); return; }
  int n = (int)d.i(3, 10), nb = (int)d.i(2, 3), scaling = (int)d.i(-1, 5), npc = (int)d.i(1, 3);
  c.p = {n, nb, scaling, npc}; int constblocks = 0;
  for (int b = 0; b < nb; b++) {
    int w = (int)d.i(1, 4), kind = (int)d.i(0, 2);   // 0 exact low rank, 1 all-constant block, 2 zero block
    M A = kind == 0 ? gen_exact_rank(d, n, w, (int)d.i(0, std::min(n, w)), false) : M(n, w, kind == 1 ? 2.0 : 0.0);
    if (kind) constblocks++;
    c.p.push_back(w); put(c, A);
  }
  c.nontrivial = constblocks > 0; if (constblocks == nb) c.tags.push_back("all-blocks-constant"); else if (constblocks) c.tags.push_back("some-constant-block");
}
static void pred_cpca(const Case &c) {
  Reader rd(c); int n = (int)rd.i(), nb = (int)rd.i(), scaling = (int)rd.i(), npc = (int)rd.i();
  set_tick_ceiling(200000); libsci_verif_nproc = 1;
  tensor *t; NewTensor(&t, (size_t)nb); ld total = 0;
  std::vector<int> ws;
  { Reader r2(c); r2.i(); r2.i(); r2.i(); r2.i(); for (int b = 0; b < nb; b++) ws.push_back((int)c.p[4 + (size_t)b]); }
  for (int b = 0; b < nb; b++) { rd.i(); M A = rd.mat(n, ws[(size_t)b]); NewTensorMatrix(t, (size_t)b, (size_t)n, (size_t)ws[(size_t)b]); for (int i = 0; i < n; i++) for (int j = 0; j < ws[(size_t)b]; j++) t->m[b]->data[i][j] = (double)A(i, j); Prep P = ref_preprocess(A, scaling); for (ld x : P.X.a) total += x * x; }
  CPCAMODEL *m; NewCPCAModel(&m);
  CPCA(t, scaling, (size_t)npc, m);
  for (size_t k = 0; k < m->total_expvar->size; k++) VF_CHECK(!std::isnan(m->total_expvar->data[k]), "CPCA total explained variance of component %zu is NaN", k);
  for (size_t k = 0; k < m->block_expvar->size; k++) for (size_t b = 0; b < m->block_expvar->d[k]->size; b++)
    VF_CHECK(!std::isnan(m->block_expvar->d[k]->data[b]), "CPCA explained variance of block %zu at component %zu is NaN", b, k);
  if (total > 0) for (size_t i = 0; i < m->super_scores->row; i++) VF_CHECK(std::isfinite(m->super_scores->data[i][0]), "first super score (%zu) is not finite although the data are not null", i);
  // data that are not null have a first component: it must not come back null
  if (total > 0) { ld t2 = 0; for (size_t i = 0; i < m->super_scores->row; i++) t2 += (ld)m->super_scores->data[i][0] * m->super_scores->data[i][0];
    VF_CHECK(t2 > 0 && m->total_expvar->data[0] > 0, "first CPCA component is null (explained variance %.3g) although the preprocessed data have a sum of squares of %.3Lg (scaling %d)", m->total_expvar->data[0], total, scaling); }
  DelCPCAModel(&m); DelTensor(&t);
}

// ------------------------------------------------------------------------------------------------
static void gen_kmeans(Draw &d, Case &c) {
  int n = (int)d.i(2, 12), p = (int)d.i(1, 3), distinct = (int)d.i(1, 3), init = (int)d.i(0, 3), th = (int)d.i(1, 3), seed = (int)d.i(1, 1000);
  // more clusters than objects is a degenerate request of the k-means++ seeding (initializer 1) that must still return; the other
  // selection methods index the data by the requested count and are only asked for k <= n
  int k = (int)d.i(1, init == 1 ? std::min(n + 2, 8) : std::min(n, 5));
  auto base = d.ivec((size_t)distinct * p, -5, 5); auto pick = d.ivec(n, 0, distinct - 1);
  c.p = {n, p, k, init, th, seed};
  for (int i = 0; i < n; i++) for (int j = 0; j < p; j++) c.v.push_back((double)base[(size_t)pick[i] * p + j]);
  c.nontrivial = distinct < k; c.tags.push_back(fmt("initializer=%d", init)); if (distinct < k) c.tags.push_back("fewer-distinct-points-than-clusters"); if (k > n) c.tags.push_back("more-clusters-than-objects");
}
static void pred_kmeans(const Case &c) {
  Reader rd(c); int n = (int)rd.i(), p = (int)rd.i(), k = (int)rd.i(), init = (int)rd.i(), th = (int)rd.i(), seed = (int)rd.i();
  M A = rd.mat(n, p); set_tick_ceiling(5000);
  matrix *m = to_lib(A); uivector *lab; initUIVector(&lab); matrix *cen; initMatrix(&cen);
  srand_((uint32_t)seed);
  KMeans(m, (size_t)k, init, lab, cen, (size_t)th);
  VF_CHECK((int)lab->size == n, "KMeans returned %zu labels for %d objects", lab->size, n);
  for (int i = 0; i < n; i++) VF_CHECK(lab->data[i] < (size_t)k, "label out of range");
  for (size_t i = 0; i < cen->row; i++) for (size_t j = 0; j < cen->col; j++) VF_CHECK(std::isfinite(cen->data[i][j]), "centroid (%zu,%zu) not finite", i, j);
  DelMatrix(&m); DelUIVector(&lab); DelMatrix(&cen);
}

// ------------------------------------------------------------------------------------------------
static void gen_cv1(Draw &d, Case &c) {
  int n = (int)d.i(4, 10), p = (int)d.i(1, 3), learner = (int)d.i(0, 1), th = (int)d.i(1, 2);
  c.p = {n, p, learner, th}; auto x = d.ivec((size_t)n * p, -20, 20), y = d.ivec(n, -20, 20);
  for (auto v : x) c.v.push_back((double)v / 2); for (auto v : y) c.v.push_back((double)v / 2);
  c.nontrivial = true; c.tags.push_back(learner ? "MLR-groups=1" : "PLS-groups=1");
}
static void pred_cv1(const Case &c) {
  Reader rd(c); int n = (int)rd.i(), p = (int)rd.i(), learner = (int)rd.i(), th = (int)rd.i();
  M X = rd.mat(n, p), Y = rd.mat(n, 1); set_tick_ceiling(200000);
  matrix *mx = to_lib(X), *my = to_lib(Y), *py, *pr; initMatrix(&py); initMatrix(&pr);
  MODELINPUT in = initModelInput(); in.mx = mx; in.my = my; in.nlv = 1; in.xautoscaling = 1; in.yautoscaling = 0;
  BootstrapRandomGroupsCV(&in, 1, (size_t)th, learner ? _MLR_ : _PLS_, py, pr, (size_t)th, NULL, 0);   // a degenerate request (empty training set): it must return
  VF_CHECK((int)py->row == n, "groups=1 request: %zu prediction rows", py->row);
  DelMatrix(&mx); DelMatrix(&my); DelMatrix(&py); DelMatrix(&pr);
}

// ------------------------------------------------------------------------------------------------
static long g_calls; static int g_obj;
static double objective(dvector *v) { g_calls++; if (g_obj == 0) return 3.0; double s = 0; for (size_t i = 0; i < v->size; i++) s += v->data[i]; return g_obj == 1 ? -s : -s * s * s; }
static void gen_simplex(Draw &d, Case &c) { c.p = {d.i(1, 5), d.i(0, 2), d.i(1, 500)}; c.nontrivial = true; c.tags.push_back(c.p[1] == 0 ? "constant-objective" : "unbounded-below-objective"); }
static void pred_simplex(const Case &c) {
  int dim = (int)c.p[0]; g_obj = (int)c.p[1]; size_t iter = (size_t)c.p[2]; g_calls = 0;
  dvector *x0, *best; NewDVector(&x0, (size_t)dim); initDVector(&best);
  double r = NelderMeadSimplex((double (*)())objective, x0, NULL, 1e-9, iter, best);
  VF_CHECK(g_calls <= (long)(iter + 2) * (dim + 3) + dim + 1, "simplex evaluated the objective %ld times with iter=%zu in %d dimensions: the iteration cap does not bound the run", g_calls, iter, dim);
  VF_CHECK(!std::isnan(r), "simplex returned NaN");
  DelDVector(&x0); DelDVector(&best);
}

Property &vf::property() {
  static Property p{
      "C18",
      "integer / dyadic matrices of exact rank 0..min(shape) (products of small integer factors, duplicated rows, constant columns, all-constant "
      "blocks), 25 % perturbed by 2^-40; PCA with npc 1..p+2 and every scaling; PLS with nlv 1..p+2, constant / two-valued / exactly linear "
      "responses; CPCA with constant and zero blocks; k-means with fewer distinct points than clusters (4 initialisers); cross-validation "
      "requests with one group; Nelder-Mead on constant and unbounded-below objectives with iter 1..500. Oracle: iteration ceiling of hook H3 "
      "(200000 NIPALS iterations, 5000 k-means++ passes) = non-termination; objective call counter for the simplex; components up to the "
      "numerical rank (oracle SVD, 1e-9) finite and satisfying the regular identities, variance beyond the rank 0 (<= 1e-12 %) and never NaN. "
      "Non-trivial: requested components > rank, or constant response, or >= 50 % duplicated rows, or a constant block.",
      {
          {"pca", gen_pca, pred_pca, 1600, 10000, 100},
          {"pls", gen_pls, pred_pls, 1600, 10000, 100},
          {"cpca", gen_cpca, pred_cpca, 800, 5000, 100},
          {"kmeans", gen_kmeans, pred_kmeans, 800, 5000, 100},
          {"cv_one_group", gen_cv1, pred_cv1, 160, 1000, 100},
          {"simplex", gen_simplex, pred_simplex, 400, 3000, 100},
      }};
  return p;
}
