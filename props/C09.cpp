// C09 — CPCA super scores are the PCA scores of the block-scaled concatenated data.
#include "modelgen.hpp"
using namespace vf;
using namespace orc;

static const ld CPCACONV = 1e-18L, PCACONV = 1e-10L;

// Orthogonal designs split into blocks: every column of the block-scaled concatenation is an exact eigenvector, so a NIPALS
// iteration started from a column converges at once to THAT column, dominant or not (a structure continuous draws never give).
static void gen_c09_design(Draw &d, Case &c) {
  int ptot = (int)d.i(3, 4), n = 1 << ptot; if (d.coin(40)) n *= 2;
  static const int splits3[][3] = {{2, 1, 0}, {1, 2, 0}, {1, 1, 1}}; static const int splits4[][4] = {{2, 1, 1, 0}, {1, 3, 0, 0}, {3, 1, 0, 0}, {1, 1, 2, 0}, {2, 2, 0, 0}, {1, 2, 1, 0}};
  std::vector<int> w; { const int *sp = ptot == 3 ? splits3[d.i(0, 2)] : splits4[d.i(0, 5)]; for (int q = 0; q < ptot && sp[q] > 0; q++) w.push_back(sp[q]); }
  int nb = (int)w.size(), scaling = (int)d.i(0, 5);
  auto sc = d.ivec(ptot, 1, 6), off = d.ivec(ptot, 1, 4);
  M X(n, ptot); for (int i = 0; i < n; i++) for (int j = 0; j < ptot; j++) X(i, j) = (double)((((i >> j) & 1) ? 1 : -1) * (scaling == 0 ? (double)sc[j] + 0.25 * j : (double)sc[j]) + 5.0 * off[j]);
  int minw = *std::min_element(w.begin(), w.end());
  int npc = (int)d.i(1, std::max(1, minw));
  c.p = {nb, n, scaling, npc}; for (int x : w) c.p.push_back(x);
  put(c, X);
  c.nontrivial = true;
  c.tags.push_back("orthogonal-design"); c.tags.push_back(fmt("blocks=%d", nb)); c.tags.push_back(fmt("scaling=%d", scaling)); c.tags.push_back(fmt("npc=%d", npc));
}

static void gen_c09(Draw &d, Case &c) {
  if (d.coin(15)) { gen_c09_design(d, c); return; }
  bool rich = d.coin(55);               // force the interesting class: >= 3 blocks of unequal width that admit npc >= 2
  int nb = rich ? (int)d.i(3, 4) : (int)d.i(2, 4), n = (int)d.sz(rich ? 8 : 5, 30);
  std::vector<int> w(nb); int ptot = 0; for (auto &x : w) { x = (int)d.i(rich ? 2 : 1, 8); ptot += x; }
  if (rich && w[0] == w[1]) { w[1] = w[0] < 8 ? w[0] + 1 : w[0] - 1; ptot = 0; for (int x : w) ptot += x; }
  int scaling = (int)d.i(0, 5);
  int minw = *std::min_element(w.begin(), w.end());
  int r = std::min(n - 1, ptot);
  V s = gen_ratio_spectrum(d, r, 0.05, 0.85);
  M X = gen_lowrank(d, n, ptot, s, d.real(-1, 2), true);
  enforce_scale_domain(X, scaling);
  int npc = (int)d.i(rich && std::min(minw, r) >= 2 ? 2 : 1, std::min(minw, r));
  c.p = {nb, n, scaling, npc}; for (int x : w) c.p.push_back(x);
  put(c, X);
  bool unequal = false; for (int x : w) if (x != w[0]) unequal = true;
  c.nontrivial = nb >= 3 && unequal && npc >= 2;
  c.tags.push_back(fmt("blocks=%d", nb)); c.tags.push_back(fmt("scaling=%d", scaling)); c.tags.push_back(fmt("npc=%d", npc)); if (unequal) c.tags.push_back("unequal-block-widths");
}

static void pred_c09(const Case &c) {
  Reader rd(c);
  int nb = (int)rd.i(), n = (int)rd.i(), scaling = (int)rd.i(), npc = (int)rd.i();
  std::vector<int> w(nb); int ptot = 0; for (auto &x : w) { x = (int)rd.i(); ptot += x; }
  M X = rd.mat(n, ptot);
  // blocks, reference preprocessing, block scaling, concatenation
  std::vector<M> B; M Z(n, ptot); int c0 = 0;
  std::vector<Prep> Pb;
  for (int b = 0; b < nb; b++) {
    M Xb(n, w[b]); for (int i = 0; i < n; i++) for (int j = 0; j < w[b]; j++) Xb(i, j) = X(i, c0 + j);
    Prep P = ref_preprocess(Xb, scaling); Pb.push_back(P);
    for (int i = 0; i < n; i++) for (int j = 0; j < w[b]; j++) Z(i, c0 + j) = P.X(i, j) / sqrtl((ld)w[b]);
    B.push_back(Xb); c0 += w[b];
  }
  V lam; M Vv; jacobi_eig(mul(transpose(Z), Z), lam, Vv);
  ld trace = 0; for (ld l : lam) trace += l;
  VF_CHECK(trace > 0, "generator: zero data");
  ld s1 = sqrtl(lam[0]);

  libsci_verif_nproc = 1;
  tensor *t; NewTensor(&t, nb);
  for (int b = 0; b < nb; b++) { NewTensorMatrix(t, b, n, w[b]); for (int i = 0; i < n; i++) for (int j = 0; j < w[b]; j++) t->m[b]->data[i][j] = (double)B[b](i, j); }
  CPCAMODEL *m; NewCPCAModel(&m);
  CPCA(t, scaling, (size_t)npc, m);
  VF_CHECK((int)m->super_scores->row == n && (int)m->super_scores->col == npc && (int)m->super_weights->row == nb && (int)m->super_weights->col == npc &&
           (int)m->total_expvar->size == npc && (int)m->block_expvar->size == npc && (int)m->block_scores->order == npc && (int)m->block_loadings->order == nb,
           "CPCA model shapes (n=%d blocks=%d npc=%d)", n, nb, npc);
  M T = from_lib(m->super_scores), Wt = from_lib(m->super_weights);
  VF_CHECK(all_finite(T) && all_finite(Wt), "CPCA returned non-finite super scores / weights");
  for (int b = 0; b < nb; b++) VF_CLOSE(m->scaling_factor->data[b], sqrtl((ld)w[b]), 4 * EPS * sqrtl((ld)w[b]), "block scaling factor vs sqrt(number of variables)");
  // judged components: gap ratios on the oracle spectrum <= 0.9
  ld t3 = sqrtl((ld)n * CPCACONV), angle = 0; int judged = 0; std::vector<ld> bound;
  for (int k = 0; k < npc; k++) {
    ld sk = sqrtl(std::max<ld>(lam[k], 0)), sk1 = k + 1 < ptot ? sqrtl(std::max<ld>(lam[k + 1], 0)) : 0, rk = sk > 0 ? sk1 / sk : 1;
    if (rk > 0.9L || !(lam[k] > 1e-18L * lam[0])) break;
    angle += rk / (1 - rk * rk) * t3;
    bound.push_back(5 * angle + 256 * (n + ptot) * EPS * lam[0] / lam[k]);
    judged++;
  }
  tag(fmt("judged=%d", std::min(judged, 4)));
  for (int k = 0; k < judged; k++) {
    // super score k = +- Z v_k
    V tk(n, 0); for (int i = 0; i < n; i++) for (int j = 0; j < ptot; j++) tk[i] += Z(i, j) * Vv(j, k);
    ld dp = 0; for (int i = 0; i < n; i++) dp += tk[i] * T(i, k); ld sg = dp >= 0 ? 1 : -1, dist = 0;
    for (int i = 0; i < n; i++) { ld e = T(i, k) - sg * tk[i]; dist += e * e; }
    VF_CHECK(sqrtl(dist) <= bound[k] * s1 * 2, "super score %d differs from the PCA score of the block-scaled concatenation by %.3Lg (bound %.3Lg; n=%d blocks=%d scaling=%d)", k, sqrtl(dist), bound[k] * s1 * 2, n, nb, scaling);
    ld ref = 100 * lam[k] / trace;
    VF_CHECK(fabsl(m->total_expvar->data[k] - ref) <= ref * (10 * t3 + 4 * bound[k] * bound[k] + 1e-9L) + 1e-12L, "total explained variance of component %d = %.12g, PCA of the concatenation gives %.12Lg", k, m->total_expvar->data[k], ref);
  }
  // super score = block scores x super weights ; block explained variances cumulative, within [0,100], non-decreasing
  for (int k = 0; k < npc; k++) {
    matrix *bs = m->block_scores->m[k];
    VF_CHECK((int)bs->row == n && (int)bs->col == nb, "block score matrix of component %d is %s", k, dims(bs).c_str());
    for (int i = 0; i < n; i++) { ld s = 0, sa = 0; for (int b = 0; b < nb; b++) { ld x = (ld)bs->data[i][b] * Wt(b, k); s += x; sa += fabsl(x); } VF_CLOSE(T(i, k), s, tol_T1(nb, sa), fmt("super score (%d,%d) vs block scores x super weights", i, k).c_str()); }
    ld nw = 0; for (int b = 0; b < nb; b++) nw += Wt(b, k) * Wt(b, k); VF_CLOSE(nw, 1, 64 * nb * EPS, "super weights have unit length");
    VF_CHECK((int)m->block_expvar->d[k]->size == nb, "block_expvar entry %d has %zu values", k, m->block_expvar->d[k]->size);
    for (int b = 0; b < nb; b++) {
      double ve = m->block_expvar->d[k]->data[b];
      VF_CHECK(ve >= -1e-9 && ve <= 100 + 1e-9, "block explained variance (%d,%d) = %.12g outside [0,100]", k, b, ve);
      if (k > 0) VF_CHECK(ve >= m->block_expvar->d[k - 1]->data[b] - 1e-9, "cumulative block explained variance decreases: block %d, %.12g then %.12g", b, m->block_expvar->d[k - 1]->data[b], ve);
    }
  }
  // differential: the library's own PCA on the concatenation (second, weaker witness)
  {
    matrix *z = to_lib(Z); PCAMODEL *pm; NewPCAModel(&pm);
    PCA(z, -1, (size_t)npc, pm, NULL);
    ld tp = sqrtl((ld)n * PCACONV);
    for (int k = 0; k < judged; k++) {
      ld dp = 0; for (int i = 0; i < n; i++) dp += pm->scores->data[i][k] * T(i, k); ld sg = dp >= 0 ? 1 : -1, dist = 0;
      for (int i = 0; i < n; i++) { ld e = T(i, k) - sg * pm->scores->data[i][k]; dist += e * e; }
      ld rsum = 0; for (int q = 0; q <= k; q++) { ld rk = sqrtl(std::max<ld>(lam[q + 1 < ptot ? q + 1 : q], 0) / lam[q]); if (q + 1 >= ptot) rk = 0; rsum += rk / (1 - rk * rk); }
      VF_CHECK(sqrtl(dist) <= (5 * rsum * tp + bound[k]) * s1 * 2, "super score %d differs from PCA() on the concatenation by %.3Lg", k, sqrtl(dist));
    }
    DelPCAModel(&pm); DelMatrix(&z);
  }
  // projecting the training tensor reproduces the super scores
  {
    matrix *ps; initMatrix(&ps); tensor *pb; initTensor(&pb);
    CPCAScorePredictor(t, m, (size_t)npc, ps, pb);
    VF_CHECK((int)ps->row == n && (int)ps->col == npc, "CPCAScorePredictor shape %s", dims(ps).c_str());
    for (int k = 0; k < npc; k++) {
      ld dist = 0, nt = 0; for (int i = 0; i < n; i++) { ld e = ps->data[i][k] - T(i, k); dist += e * e; nt += T(i, k) * T(i, k); }
      ld cond = lam[k] > 0 ? lam[0] / lam[k] : 1e30L;
      VF_CHECK(sqrtl(dist) <= (20 * t3 * (k + 1) + 256 * (n + ptot) * EPS * cond) * (sqrtl(nt) + s1), "CPCAScorePredictor(training) component %d differs from the super scores by %.3Lg (|t| = %.3Lg)", k, sqrtl(dist), sqrtl(nt));
    }
    DelMatrix(&ps); DelTensor(&pb);
  }
  DelCPCAModel(&m); DelTensor(&t);
}

Property &vf::property() {
  static Property p{
      "C09",
      "2..4 blocks of 1..8 variables, 5..30 objects, data = U diag(s) V^T (gap ratios of the concatenation 0.05..0.85) + offsets split into "
      "blocks, columns inside the preprocessing domain, scaling 0..5, npc in [1, min block width]. Oracle: cyclic Jacobi on Z'Z with "
      "Z = [ref_preprocess(X_b)/sqrt(m_b)] in long double (components with gap ratio <= 0.9 on that spectrum are judged; bound T3 with the "
      "documented threshold 1e-18), the library's own PCA(Z,-1) as second witness, identities super score = block scores x weights, "
      "cumulative block variances, score prediction of the training tensor. Non-trivial: >= 3 blocks of unequal width and npc >= 2.",
      {
          {"cpca", gen_c09, pred_c09, 1200, 4000, 100},
      }};
  return p;
}
