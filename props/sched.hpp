// Deterministic thread scheduler for the library's own pthread_create / pthread_join calls (C06).
// The harness is linked with -Wl,--wrap=pthread_create,--wrap=pthread_join, so every thread the library creates is
// registered here (creation order = stable index) and, while the scheduler is active, exactly one registered thread
// runs at a time.  Yield points are the entries of srand_/rand_/randInt/randDouble (hook H2) and thread exit / join.
// At each point the next runnable thread is taken from a choice vector (choice modulo the number of runnable threads),
// which is part of the generated case; exhaustive enumeration re-executes with every choice vector (depth first).
#pragma once
#include <pthread.h>
#include <mutex>
#include <condition_variable>
#include <vector>
#include <functional>

extern "C" int __real_pthread_create(pthread_t *, const pthread_attr_t *, void *(*)(void *), void *);
extern "C" int __real_pthread_join(pthread_t, void **);

namespace sched {

// index of the calling thread in the scheduler's table (pthread_t values are recycled after a join, so the
// handle cannot identify a thread across batches); -1 = not registered
static thread_local int tl_index = -1;
static thread_local unsigned long tl_epoch = 0;
static unsigned long g_epoch = 0;

enum State { RUNNABLE, BLOCKED, DONE };
struct Th { pthread_t handle; bool joined = false; State st = RUNNABLE; int waits_for = -1; void *(*fn)(void *) = nullptr; void *arg = nullptr; void *ret = nullptr; };
struct Event { int thread; int op; unsigned arg; };   // op: 0 srand_, 1 rand_, 2 randInt, 3 randDouble

struct Scheduler {
  std::mutex m; std::condition_variable cv;
  bool active = false;
  bool fine = false;            // also yield at the exit hook of every generator call (between its state update and its return)
  std::vector<Th> th;            // index 0 = the thread that activated the scheduler (the caller of the library routine)
  int current = 0;
  std::vector<int> choices; size_t pos = 0;
  std::vector<int> options_seen;  // number of runnable threads at every decision point of this execution
  std::vector<int> taken;         // choice actually taken at every decision point
  std::vector<Event> trace;
  long decisions = 0;

  int self_index() { return (tl_epoch == g_epoch && tl_index >= 0 && tl_index < (int)th.size()) ? tl_index : -1; }
  bool runnable(int i) { return th[i].st == RUNNABLE || (th[i].st == BLOCKED && th[th[i].waits_for].st == DONE); }
  // pick the next thread to run (caller holds the lock)
  int choose() {
    std::vector<int> r; for (size_t i = 0; i < th.size(); i++) if (runnable((int)i)) r.push_back((int)i);
    if (r.empty()) return -1;
    int c = 0;
    if (r.size() > 1) {
      c = pos < choices.size() ? choices[pos] % (int)r.size() : 0; pos++;
      options_seen.push_back((int)r.size()); taken.push_back(c); decisions++;
    }
    return r[(size_t)c];
  }
  void switch_from(int self, std::unique_lock<std::mutex> &lk) {
    int nx = choose();
    if (nx < 0) return;
    current = nx; cv.notify_all();
    cv.wait(lk, [&] { return current == self; });
    if (th[self].st == BLOCKED) { th[self].st = RUNNABLE; th[self].waits_for = -1; }
  }
  void yield() {
    if (!active) return;
    std::unique_lock<std::mutex> lk(m);
    int self = self_index(); if (self < 0) return;
    switch_from(self, lk);
  }
  void start(const std::vector<int> &ch, bool fine_ = false) {
    fine = fine_;
    std::unique_lock<std::mutex> lk(m);
    th.clear(); Th t0; t0.handle = pthread_self(); th.push_back(t0);
    g_epoch++; tl_index = 0; tl_epoch = g_epoch;
    current = 0; choices = ch; pos = 0; options_seen.clear(); taken.clear(); trace.clear(); decisions = 0; active = true;
  }
  void stop() { std::unique_lock<std::mutex> lk(m); active = false; }
};
inline Scheduler &S() { static Scheduler s; return s; }

struct Tramp { int idx; };
inline void *trampoline(void *p) {
  Tramp *t = (Tramp *)p; int self = t->idx; delete t;
  Scheduler &s = S();
  tl_index = self; tl_epoch = g_epoch;
  void *(*fn)(void *); void *arg;
  {
    std::unique_lock<std::mutex> lk(s.m);
    s.cv.wait(lk, [&] { return s.current == self; });
    fn = s.th[self].fn; arg = s.th[self].arg;
  }
  void *r = fn(arg);
  {
    std::unique_lock<std::mutex> lk(s.m);
    s.th[self].ret = r; s.th[self].st = DONE;
    int nx = s.choose();
    if (nx >= 0) { s.current = nx; s.cv.notify_all(); }
  }
  return r;
}

// the RNG hook (H2): a yield point at the entry of every generator call
inline void rng_hook(int op, unsigned arg, int phase) {
  Scheduler &s = S();
  if (!s.active || (phase != 0 && !s.fine)) return;
  int self;
  { std::unique_lock<std::mutex> lk(s.m); self = s.self_index(); if (self < 0) return; }
  s.yield();
  if (phase == 0) { std::unique_lock<std::mutex> lk(s.m); s.trace.push_back({self, op, arg}); }
}

// next choice vector in depth-first order; returns false when the space is exhausted
inline bool next_schedule(const std::vector<int> &taken, const std::vector<int> &options, std::vector<int> &out) {
  out = taken;
  for (int i = (int)out.size() - 1; i >= 0; i--) {
    if (out[(size_t)i] + 1 < options[(size_t)i]) { out[(size_t)i]++; out.resize((size_t)i + 1); return true; }
  }
  return false;
}

}  // namespace sched

extern "C" int __wrap_pthread_create(pthread_t *t, const pthread_attr_t *a, void *(*fn)(void *), void *arg) {
  sched::Scheduler &s = sched::S();
  if (!s.active) return __real_pthread_create(t, a, fn, arg);
  int idx;
  {
    std::unique_lock<std::mutex> lk(s.m);
    sched::Th nt; nt.fn = fn; nt.arg = arg; s.th.push_back(nt); idx = (int)s.th.size() - 1;
  }
  sched::Tramp *tr = new sched::Tramp{idx};
  pthread_t h; int rc = __real_pthread_create(&h, a, sched::trampoline, tr);
  { std::unique_lock<std::mutex> lk(s.m); s.th[(size_t)idx].handle = h; }
  *t = h;
  return rc;
}
extern "C" int __wrap_pthread_join(pthread_t t, void **ret) {
  sched::Scheduler &s = sched::S();
  if (s.active) {
    std::unique_lock<std::mutex> lk(s.m);
    int self = s.self_index(), target = -1;
    for (size_t i = 0; i < s.th.size(); i++) if (!s.th[i].joined && i > 0 && pthread_equal(s.th[i].handle, t)) target = (int)i;
    if (target >= 0) s.th[(size_t)target].joined = true;
    if (self >= 0 && target >= 0 && s.th[(size_t)target].st != sched::DONE) {
      s.th[(size_t)self].st = sched::BLOCKED; s.th[(size_t)self].waits_for = target;
      s.switch_from(self, lk);
    }
  }
  return __real_pthread_join(t, ret);
}
