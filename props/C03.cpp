// C03 — PLS (NIPALS) model satisfies its structural identities for every X, Y, LV count.
#include "modelgen.hpp"
using namespace vf;
using namespace orc;

static void gen_c03(Draw &d, Case &c) {
  int p = (int)d.sz(1, 12);
  int n = std::min(40, std::max(6, p + 3 + (int)d.sz(0, 25)));
  int ny = d.coin(50) ? (int)d.i(2, 4) : (int)d.i(1, 4);
  int xopt = (int)d.i(-1, 5), yopt = (int)d.i(-1, 5);
  bool design = d.coin(20);
  RegData R = design ? gen_design_regression(d, n, p, ny, xopt, yopt) : gen_regression(d, n, p, ny, 3.0, xopt, yopt);
  if (design) c.tags.push_back("orthogonal-design");
  Prep Px = ref_preprocess(R.X, xopt);
  int rank = std::max(1, numerical_rank(singular_values(Px.X), 1e-9L));
  int nlv = (rank >= 2 && d.coin(60)) ? (int)d.i(2, rank) : (int)d.i(1, rank);
  c.p = {n, p, ny, xopt, yopt, nlv};
  put(c, R.X); put(c, R.Y);
  c.nontrivial = ny >= 2 && nlv >= 2 && nlv != ny;
  c.tags.push_back(fmt("ny=%d", ny)); c.tags.push_back(fmt("nlv=%d", std::min(nlv, 6)));
  c.tags.push_back(fmt("xscaling=%d", xopt)); c.tags.push_back(fmt("yscaling=%d", yopt));
  if (nlv == rank) c.tags.push_back("nlv=rank");
}

static void pred_c03(const Case &c) {
  Reader rd(c);
  int n = (int)rd.i(), p = (int)rd.i(), ny = (int)rd.i(), xopt = (int)rd.i(), yopt = (int)rd.i(), nlv = (int)rd.i();
  M X = rd.mat(n, p), Y = rd.mat(n, ny);
  Prep Px = ref_preprocess(X, xopt), Py = ref_preprocess(Y, yopt);
  V dEx = prep_col_bound(X, Px, xopt);
  V sv = singular_values(Px.X);
  ld kappa = sv[std::min<int>(nlv, (int)sv.size()) - 1] > 0 ? sv[0] / sv[std::min<int>(nlv, (int)sv.size()) - 1] : 1e300L;
  ld otol = 1e3L * (n + p) * EPS * kappa + 1e-13L;

  matrix *mx = to_lib(X), *my = to_lib(Y);
  PLSMODEL *m; NewPLSModel(&m);
  PLS(mx, my, (size_t)nlv, xopt, yopt, m, NULL);
  VF_CHECK((int)m->xscores->row == n && (int)m->xscores->col == nlv && (int)m->xloadings->row == p && (int)m->xloadings->col == nlv &&
           (int)m->xweights->row == p && (int)m->xweights->col == nlv && (int)m->yloadings->row == ny && (int)m->yloadings->col == nlv && (int)m->b->size == nlv,
           "PLS model shapes: xscores %s xloadings %s xweights %s yloadings %s b %zu (n=%d p=%d ny=%d nlv=%d)", dims(m->xscores).c_str(), dims(m->xloadings).c_str(),
           dims(m->xweights).c_str(), dims(m->yloadings).c_str(), m->b->size, n, p, ny, nlv);
  VF_CHECK((int)m->recalculated_y->row == n && (int)m->recalculated_y->col == ny * nlv && (int)m->recalc_residuals->row == n && (int)m->recalc_residuals->col == ny * nlv,
           "recalculated_y %s / recalc_residuals %s, expected %dx%d", dims(m->recalculated_y).c_str(), dims(m->recalc_residuals).c_str(), n, ny * nlv);
  M T = from_lib(m->xscores), P = from_lib(m->xloadings), W = from_lib(m->xweights), Q = from_lib(m->yloadings); V b = from_lib(m->b);
  VF_CHECK(all_finite(T) && all_finite(P) && all_finite(W) && all_finite(Q), "PLS returned non-finite model matrices (n=%d p=%d ny=%d nlv=%d x/y scaling %d/%d)", n, p, ny, nlv, xopt, yopt);
  for (int i = 0; i < n; i++) { for (int j = 0; j < p; j++) VF_CHECK(mx->data[i][j] == (double)X(i, j), "PLS modified X"); for (int j = 0; j < ny; j++) VF_CHECK(my->data[i][j] == (double)Y(i, j), "PLS modified Y"); }

  // (1) mutually orthogonal scores and weights.  Both identities are exact in exact arithmetic whatever the state of
  // convergence; in floating point the attainable cosine is eps*|X0|*|u_b| / |X_{b-1}' u_b| for the weights (w_b is the
  // normalised X_{b-1}'u_b) and eps*|X0|*|w_b| / |t_b| for the scores.  Both ratios are measured on the harness's own
  // long-double deflation, so a latent variable that is numerically undefined (Krylov sequence exhausted) gets the
  // tolerance that follows from its own conditioning instead of a fixed one.
  M U = from_lib(m->yscores);
  {
    M Ed = Px.X; ld nX0 = fro(Px.X);
    for (int bcomp = 0; bcomp < nlv; bcomp++) {
      ld nu = 0, nw = 0, nt = 0, nxu = 0;
      for (int i = 0; i < n; i++) { nu += U(i, bcomp) * U(i, bcomp); nt += T(i, bcomp) * T(i, bcomp); }
      for (int j = 0; j < p; j++) { ld s = 0; for (int i = 0; i < n; i++) s += Ed(i, j) * U(i, bcomp); nxu += s * s; nw += W(j, bcomp) * W(j, bcomp); }
      nu = sqrtl(nu); nt = sqrtl(nt); nw = sqrtl(nw); nxu = sqrtl(nxu);
      ld rho = nxu / (nX0 * nu + 1e-300L), tau = nt / (nX0 * nw + 1e-300L);
      ld wtol = 1e3L * (n + p) * EPS / (rho + 1e-300L) + 1e-13L, ttolr = 1e3L * (n + p) * EPS / (tau + 1e-300L) + 1e-13L;
      if (rho < 1e-6L || tau < 1e-6L) tag("numerically-undefined-LV(orthogonality-vacuous)");
      for (int a = 0; a < bcomp; a++) {
        ld tt = 0, ta = 0, ww = 0, wa = 0;
        for (int i = 0; i < n; i++) { tt += T(i, a) * T(i, bcomp); ta += T(i, a) * T(i, a); }
        for (int j = 0; j < p; j++) { ww += W(j, a) * W(j, bcomp); wa += W(j, a) * W(j, a); }
        VF_CHECK(fabsl(tt) <= ttolr * sqrtl(ta) * nt, "x-scores %d and %d not orthogonal: cos = %.3Lg > %.3Lg (tau %.3Lg)", bcomp, a, tt / (sqrtl(ta) * nt), ttolr, tau);
        VF_CHECK(fabsl(ww) <= wtol * sqrtl(wa) * nw, "weights %d and %d not orthogonal: cos = %.3Lg > %.3Lg (rho %.3Lg)", bcomp, a, ww / (sqrtl(wa) * nw), wtol, rho);
      }
      for (int i = 0; i < n; i++) for (int j = 0; j < p; j++) Ed(i, j) -= T(i, bcomp) * P(j, bcomp);
    }
  }
  // (2) X0 = T P' + E, with t_k = X_{k-1} w_k and E' t_k = 0 ; harness deflates in long double
  M E = Px.X; M absacc(n, p); for (size_t i = 0; i < E.a.size(); i++) absacc.a[i] = fabsl(E.a[i]);
  std::vector<V> ttol(nlv, V(n, 0));
  for (int k = 0; k < nlv; k++) {
    for (int i = 0; i < n; i++) {
      ld s = 0, tol = 0; for (int j = 0; j < p; j++) { s += E(i, j) * W(j, k); tol += (dEx[j] + 64 * (k + p + 2) * EPS * absacc(i, j)) * fabsl(W(j, k)); }
      tol += 1e-300L; ttol[k][i] = tol;
      if (!(fabsl(T(i, k) - s) <= tol)) fail(fmt("x-score (%d,%d) is not X_{k-1} w_k: got %.17Lg expected %.17Lg tol %.3Lg", i, k, T(i, k), s, tol));
    }
    for (int i = 0; i < n; i++) for (int j = 0; j < p; j++) { E(i, j) -= T(i, k) * P(j, k); absacc(i, j) += fabsl(T(i, k) * P(j, k)); }
  }
  ld nX = fro(Px.X);
  for (int k = 0; k < nlv; k++) {
    ld nt = 0; for (int i = 0; i < n; i++) nt += T(i, k) * T(i, k); nt = sqrtl(nt);
    for (int j = 0; j < p; j++) { ld s = 0; for (int i = 0; i < n; i++) s += E(i, j) * T(i, k); VF_CHECK(fabsl(s) <= otol * nt * nX + 1e-300L, "residual column %d not orthogonal to x-score %d: %.3Lg > %.3Lg", j, k, s, otol * nt * nX); }
  }
  // (3) re-projecting the training X reproduces the scores
  {
    matrix *ps; initMatrix(&ps);
    PLSScorePredictor(mx, m, (size_t)nlv, ps);
    VF_CHECK((int)ps->row == n && (int)ps->col == nlv, "PLSScorePredictor shape %s", dims(ps).c_str());
    for (int k = 0; k < nlv; k++) for (int i = 0; i < n; i++)
      if (!(fabsl(ps->data[i][k] - T(i, k)) <= 4 * ttol[k][i])) fail(fmt("PLSScorePredictor(training) (%d,%d): %.17g vs stored score %.17Lg tol %.3Lg (xscaling %d)", i, k, ps->data[i][k], T(i, k), 4 * ttol[k][i], xopt));
    DelMatrix(&ps);
  }
  // (4) recalculated responses and residuals, LV-major layout: column ny*(a-1)+j
  V ymean(ny, 0), yscale(ny, 1);
  if (yopt >= 0) { ymean = from_lib(m->ycolaverage); yscale = from_lib(m->ycolscaling); VF_CHECK((int)ymean.size() == ny && (int)yscale.size() == ny, "stored y statistics sizes"); }
  else VF_CHECK(m->ycolaverage->size == 0 && m->ycolscaling->size == 0, "y statistics stored for option -1");
  matrix *ally; initMatrix(&ally);
  PLSYPredictorAllLV(mx, m, NULL, ally);
  VF_CHECK((int)ally->row == n && (int)ally->col == ny * nlv, "PLSYPredictorAllLV shape %s", dims(ally).c_str());
  for (int a = 1; a <= nlv; a++) {
    matrix *ya; initMatrix(&ya);
    PLSYPredictor(m->xscores, m, (size_t)a, ya);
    VF_CHECK((int)ya->row == n && (int)ya->col == ny, "PLSYPredictor shape %s", dims(ya).c_str());
    for (int j = 0; j < ny; j++) for (int i = 0; i < n; i++) {
      ld s = 0, sa = 0, st = 0;
      for (int k = 0; k < a; k++) { ld t = b[k] * T(i, k) * Q(j, k); s += t; sa += fabsl(t); st += fabsl(b[k] * Q(j, k)) * ttol[k][i]; }
      ld ref = s * yscale[j] + ymean[j];
      ld tol = 64 * (a + 3) * EPS * (sa * fabsl(yscale[j]) + fabsl(ymean[j])) + 1e-300L;
      int col = ny * (a - 1) + j;
      if (!(fabsl(m->recalculated_y->data[i][col] - ref) <= tol))
        fail(fmt("recalculated_y[%d][%d] (LV %d, response %d) = %.17g but sum b t q back-transformed = %.17Lg (tol %.3Lg; ny=%d nlv=%d)", i, col, a, j, m->recalculated_y->data[i][col], ref, tol, ny, nlv));
      if (!(fabsl(ya->data[i][j] - ref) <= tol)) fail(fmt("PLSYPredictor(%d LVs) (%d,%d) = %.17g expected %.17Lg", a, i, j, ya->data[i][j], ref));
      ld tol2 = tol + 8 * st * fabsl(yscale[j]);
      if (!(fabsl(ally->data[i][col] - ref) <= tol2)) fail(fmt("PLSYPredictorAllLV[%d][%d] (LV %d, response %d) = %.17g expected %.17Lg tol %.3Lg", i, col, a, j, ally->data[i][col], ref, tol2));
      ld rres = (ld)m->recalculated_y->data[i][col] - Y(i, j);
      ld tolr = 4 * EPS * (fabsl((ld)m->recalculated_y->data[i][col]) + fabsl(Y(i, j))) + 1e-300L;
      if (!(fabsl(m->recalc_residuals->data[i][col] - rres) <= tolr))
        fail(fmt("recalc_residuals[%d][%d] (LV %d, response %d) = %.17g but recalculated - observed = %.17Lg (ny=%d nlv=%d)", i, col, a, j, m->recalc_residuals->data[i][col], rres, ny, nlv));
    }
    DelMatrix(&ya);
  }
  DelMatrix(&ally);
  DelPLSModel(&m); DelMatrix(&mx); DelMatrix(&my);
}

Property &vf::property() {
  static Property p{
      "C03",
      "X n x p (n in [6,40], p in [1,12], n >= p+3, singular values over <= 3 decades, offsets), Y = X B + noise with 1..4 responses "
      "(correlated / scaled by 1e+-3 / non-constant), x and y scaling -1..5 (columns inside the preprocessing domain), nlv in "
      "[1, rank(X preprocessed)]. Oracle: identities recomputed in long double from the reference preprocessing and the model fields. "
      "Non-trivial: ny >= 2 and nlv >= 2 and nlv != ny.",
      {
          {"identities", gen_c03, pred_c03, 2400, 8000, 100},
      }};
  return p;
}
