#!/bin/sh
# Builds /repo's current working tree with the guard OFF (plain cmake configuration, as the pinned
# baseline does) in a scratch directory and runs the repository's ctest suite.
set -e
B=${1:-/verif/build/baseline_off}
rm -rf "$B"
cmake -G Ninja -S /repo -B "$B" -DCMAKE_BUILD_TYPE=RelWithDebInfo -DCMAKE_C_FLAGS=-Wno-error >/dev/null
cmake --build "$B" -j16 >/dev/null
ctest --test-dir "$B" -j8 --timeout 900 2>&1 | tail -15
