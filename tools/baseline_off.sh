#!/bin/sh
# Guard OFF baseline: builds /repo's current working tree exactly as the pinned baseline did (plain
# cmake, RelWithDebInfo, no LIBSCIENTIFIC_VERIF) in a scratch directory and runs every test binary;
# the "<name>: OK" lines they print are compared with the 62 stable names of /root/.vp/BASELINE.json.
set -e
B=${1:-/verif/build/baseline_off}
rm -rf "$B"
cmake -G Ninja -S /repo -B "$B" -DCMAKE_BUILD_TYPE=RelWithDebInfo -DCMAKE_C_FLAGS=-Wno-error >/dev/null
cmake --build "$B" -j16 >/dev/null
exec python3 /verif/tools/baseline_compare.py "$B"
