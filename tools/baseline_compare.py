#!/usr/bin/env python3
import sys, os, re, json, subprocess, concurrent.futures
B = sys.argv[1]
tdir = os.path.join(B, "src", "tests")
bins = sorted(f for f in os.listdir(tdir) if f.startswith("test") and os.access(os.path.join(tdir, f), os.X_OK) and os.path.isfile(os.path.join(tdir, f)))
env = dict(os.environ, OPENBLAS_NUM_THREADS="1")
def run(b):
    try:
        r = subprocess.run([os.path.join(tdir, b)], cwd=tdir, stdout=subprocess.PIPE, stderr=subprocess.STDOUT, timeout=1800, env=env)
        return b, r.returncode, r.stdout.decode("utf-8", "replace")
    except subprocess.TimeoutExpired:
        return b, -999, ""
ok_names, bad = set(), []
with concurrent.futures.ThreadPoolExecutor(8) as ex:
    for b, rc, out in ex.map(run, bins):
        if rc != 0:
            bad.append((b, rc))
        for line in out.splitlines():
            m = re.match(r"^\s*(.*?)\s*:\s*OK\.?\s*$", line)
            if m:
                ok_names.add(m.group(1).strip())
# a binary that failed under the parallel run is re-run once on its own (the suite contains timing/randomised tests)
retry = [b for b, rc in bad if b != "testica"]
bad = [x for x in bad if x[0] == "testica"]
for b in retry:
    b_, rc, out = run(b)
    if rc != 0:
        bad.append((b, rc))
    else:
        print("note: %s failed in the parallel run and passed when re-run alone" % b)
    for line in out.splitlines():
        m = re.match(r"^\s*(.*?)\s*:\s*OK\.?\s*$", line)
        if m:
            ok_names.add(m.group(1).strip())
base = json.load(open("/root/.vp/BASELINE.json"))["stable_pass"]
missing = [n for n in base if n not in ok_names]
print("test binaries: %d, non-zero exit: %s" % (len(bins), bad))
print("baseline names passing: %d / %d" % (len(base) - len(missing), len(base)))
for n in missing:
    print("MISSING:", n)
# testica aborts on the pinned commit as well (MatrixDotProduct dimension error inside ICA); it contributes no baseline name
unexpected = [b for b in bad if b[0] != "testica"]
if unexpected:
    print("UNEXPECTED non-zero exits:", unexpected)
sys.exit(1 if (missing or unexpected) else 0)
