#!/bin/bash
# usage: benign_check.sh <diff> <property> [more...]  -- applies a behaviour-preserving change to $VERIF_REPO (a clone, never /repo while
# other checks run), runs the quick checks, reverts.  Any VIOLATION here is either a mistake in the "benign" change or a false alarm.
set -u
diff=$1; shift; name=$(basename $diff .diff)
R=${VERIF_REPO:-/repo}; cd $R; git diff --quiet || { echo "$R has uncommitted changes"; exit 2; }
git apply $diff || { echo "PATCH-DOES-NOT-APPLY $name"; exit 2; }
cd /verif; mkdir -p build/benign
for prop in "$@"; do
  t0=$(date +%s)
  timeout 3000 ./check $prop --tier quick --seed ${BENIGN_SEED:-7} > build/benign/${name}_$prop.log 2>&1; rc=$?
  nv=$(grep -c "^VIOLATION" build/benign/${name}_$prop.log)
  echo "BENIGN $name vs $prop: exit=$rc violations=$nv known=$(grep -c '^KNOWN-FINDING' build/benign/${name}_$prop.log) wall=$(( $(date +%s) - t0 ))s  $(grep '^VIOLATION' build/benign/${name}_$prop.log | head -1 | cut -c1-200)"
done
git -C $R checkout -- .
