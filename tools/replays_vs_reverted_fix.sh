#!/bin/bash
# usage: replays_vs_reverted_fix.sh <property> <fix-commit> : reverts one fix in /repo's working tree, runs only the replay tier
# of the property (every saved case), prints which replays fail, restores the tree.
set -u
prop=$1; commit=$2
cd /repo; git diff --quiet || { echo "/repo dirty"; exit 2; }
git show $commit -- src | git apply -R || { echo "cannot reverse-apply $commit"; exit 2; }
cd /verif
exe=$(python3 - <<PY
import sys; sys.argv=['check']; sys.path.insert(0,'/verif')
import importlib.machinery, importlib.util
l=importlib.machinery.SourceFileLoader('chk','/verif/check'); spec=importlib.util.spec_from_loader('chk',l); m=importlib.util.module_from_spec(spec); l.exec_module(m)
print(m.build_harness("$prop", extra_ld=m.extra_ld_of("$prop")))
PY
)
for f in replays/${3:-$prop}/*.case; do r=$($exe --replay $f --verif-dir /verif 2>/dev/null | cut -c1-160); echo "$(basename $f): $r"; done
git -C /repo checkout -- .
