#!/usr/bin/env python3
"""Sensitivity suite: applies each mutant of mutants/list.txt to a scratch copy of the repository ($VERIF_REPO, never /repo
unless asked), runs the owning property's quick check against it and records whether a VIOLATION was printed."""
import os, re, sys, json, subprocess, time
VERIF = os.path.dirname(os.path.dirname(os.path.abspath(__file__)))
REPO = os.environ.get("VERIF_REPO", "/repo")
LIST = "list.txt"; OUT = "results.json"
args = sys.argv[1:]
if "--list" in args:
    k = args.index("--list"); LIST = args[k + 1]; OUT = "results_" + os.path.splitext(LIST)[0] + ".json"; del args[k:k + 2]
only = [a for a in args if not a.startswith("--")]
skip_done = "--resume" in sys.argv
res = []
if skip_done and os.path.exists(os.path.join(VERIF, "mutants", OUT)):
    res = json.load(open(os.path.join(VERIF, "mutants", OUT)))
done = {(r["property"], r["mutant"]) for r in res if r["status"] in ("killed", "survived")}
for line in open(os.path.join(VERIF, "mutants", LIST)):
    line = line.rstrip("\n")
    if not line or line.startswith("#"): continue
    prop, f, pat, rep, desc = [x.strip(" ") for x in line.split(" @@ ", 4)]
    if only and prop not in only: continue
    if (prop, desc) in done: continue
    path = os.path.join(REPO, "src", f)
    src = open(path).read()
    pat_ = pat.replace("\\n", "\n"); rep_ = rep.replace("\\n", "\n")
    new, n = re.subn(pat_, lambda m: rep_, src, count=1)
    if n == 0 or new == src:
        res.append({"property": prop, "mutant": desc, "status": "pattern-not-found"}); print("NOT-APPLIED", prop, desc, flush=True); continue
    open(path, "w").write(new)
    t0 = time.time()
    try:
        p = subprocess.run([os.path.join(VERIF, "check"), prop, "--tier", "quick"], stdout=subprocess.PIPE, stderr=subprocess.PIPE, text=True, timeout=3600, env=dict(os.environ, VERIF_REPO=REPO))
        viol = [l for l in p.stdout.splitlines() if l.startswith("VIOLATION")]
        status = "killed" if viol else ("build-error" if p.returncode == 3 else "survived")
        first = viol[0][:300] if viol else (p.stderr[-300:] if p.returncode == 3 else "")
    except subprocess.TimeoutExpired:
        status, first = "timeout", ""
    finally:
        open(path, "w").write(src)
    res.append({"property": prop, "mutant": desc, "status": status, "first": first, "wall_s": round(time.time() - t0)})
    print(status.upper(), prop, desc, "(%ds)" % (time.time() - t0), flush=True)
    json.dump(res, open(os.path.join(VERIF, "mutants", OUT), "w"), indent=1)
