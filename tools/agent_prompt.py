#!/usr/bin/env python3
"""Prints the prompt given to a fresh sub-agent that has to break one property (it sees only the property text)."""
import json, sys
pid = sys.argv[1]; wt = sys.argv[2]; avoid = sys.argv[3] if len(sys.argv) > 3 else ''
for l in open('/verif/properties.jsonl'):
    d = json.loads(l)
    if d['id'] == pid:
        break
print(f"""You are given a scratch git worktree of the C library libscientific (chemometrics / multivariate statistics: PCA, PLS, MLR, LDA, clustering, cross-validation, dense linear algebra) at {wt}. Work ONLY inside {wt} (never touch /repo or /verif, do not read /verif).

Here is a semantic property the library is supposed to satisfy:

TITLE: {d['title']}
STATEMENT: {d['statement']}
QUANTIFIED OVER: {d['quantifier']['text']}
CODE ANCHORS: files {', '.join(d['anchors']['files'])}

YOUR TASK: produce ONE realistic source change (a plausible bug a maintainer could introduce in a refactor/optimisation: an off-by-one, a wrong index, a swapped argument, a dropped reset, a changed tolerance, a wrong boundary condition, two cooperating sites that each look fine alone ...) to the library sources under {wt}/src (NOT the tests) that BREAKS this property while the library still compiles and the existing test-suite still passes. Prefer a change that needs something specific to manifest (an unusual shape or size, a particular option value, a multi-step sequence of calls, a particular thread count, an input pattern ordinary use would not hit at once) over one that breaks every call. Do not make a change that is trivially visible (e.g. returning garbage for all inputs).{(" An earlier exercise already used this change: '" + avoid + "' - choose a DIFFERENT function and a different clause of the property.") if avoid else ""}

Steps:
1. Read the relevant code. Build the unchanged tree: cmake -G Ninja -S {wt} -B {wt}/_b -DCMAKE_BUILD_TYPE=RelWithDebInfo -DCMAKE_C_FLAGS=-Wno-error && cmake --build {wt}/_b -j8 . The test binaries are in {wt}/_b/src/tests (run each from that directory; a test passes when it exits 0; 'testica' aborts on the unchanged tree already, ignore it). The whole suite takes several minutes (testpca/testpls/testcpca are slow); run at least the test binaries that cover the files you touch before AND after your change and confirm they still pass (exit status 0 and the same "<name>: OK" lines).
2. Write a small stand-alone C demonstration program {wt}/demo/demo.c (link against {wt}/_b/src/libscientific.so, include headers from {wt}/src and {wt}/_b) that exits 0 on the unchanged tree and exits non-zero (printing what is wrong) with your change. It must check the property itself (e.g. compare with an independently computed value), not compare against stored output of the old library.
3. Save your change as {wt}/demo/patch.diff (output of `git -C {wt} diff -- src`), and write {wt}/demo/README.md: what was changed, why it breaks the property, what specific condition is needed to manifest, exact commands to build and run the demo with and without the patch, and which tests you ran.
4. Leave the worktree with the patch APPLIED. Remove the build directory {wt}/_b when you are done (disk is limited).

Report back briefly: the one-paragraph description of the change, the manifest condition, and the demo result with/without the patch.""")
