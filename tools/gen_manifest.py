#!/usr/bin/env python3
"""Regenerates /verif/MANIFEST.json from the table below (kept next to the code so it stays current)."""
import json, os, subprocess

VERIF = os.path.dirname(os.path.dirname(os.path.abspath(__file__)))

# property -> (technique, level text, level note, design ref)
CLAIMED = {
    "C11": ("property-based testing (rapidcheck, forked ASan/UBSan children) against long-double textbook loops; every "
            "shape 0..17 swept inside each case; algebraic laws as metamorphic relations",
            "Generated-input search: each kernel is compared with an independent long-double reference under a forward "
            "error bound (64*n*eps*sum|terms|), for every shape 0..17 per dimension and values 1e-6..1e6; failures shrink to a "
            "replay file. Exploration, not proof: absence is claimed only for the shapes and value patterns counted in the evidence.",
            "Trusted: the reference loops in /verif/engine/oracle.hpp and props/C11.cpp; clang ASan/UBSan; system libm.",
            "DESIGN.md section 5, C11"),
    "C10": ("property-based testing (rapidcheck, forked ASan/UBSan children) against a long-double reference of the seven "
            "documented options with explicit forward error bounds; fit path, apply path, new rows, MISSING cells, tensor blocks",
            "Generated-input search over matrices/tensors inside the stated domain (column scale >= 0.02 or exactly 0, up to 20 % "
            "missing cells, all options); every stored statistic and every observed transformed cell is compared with the reference. "
            "Also drawn: level-scaled columns on a tiny level (|mean| 0.002..0.009), columns with one observed cell or none, fits into an output that already holds values, fit vs apply path at the missing-coded cells. Exploration of the counted cases only.",
            "Trusted: reference statistics in /verif/engine/oracle.hpp (ref_preprocess) and the error-bound derivation in props/C10.cpp.",
            "DESIGN.md section 5, C10"),
    "C12": ("property-based testing (rapidcheck, forked ASan/UBSan children): defining equations (A*Ainv=I, Penrose conditions, "
            "A v = lambda v, U S Vt = A) and differential comparison with complete-pivoting / Householder / Jacobi oracles in long double",
            "Generated-input search over structured families (general with known spectrum, permutation, permuted triangular with singular "
            "leading minors, triangular, diagonal, SPD, indefinite; rectangular tall/wide) with condition number measured by the oracle; "
            "both inverse routines, both pseudo-inverse routines (MatrixMoorePenrosePseudoinverse, MatrixPseudoinversion), both SVD entry "
            "points (SVDlapack, SVD), SolveLSE, OrdinaryLeastSquares, EVectEval, determinant; result containers fresh, re-used with the "
            "result's shape, or re-used with another shape; tolerances proportional to n*eps*kappa (kappa^2 for normal-equation routines). "
            "Exploration of the counted cases only.",
            "Trusted: oracle solvers in /verif/engine/oracle.hpp; system LAPACK is part of the tested code path, not of the oracle.",
            "DESIGN.md section 5, C12"),
    "C01": ("property-based testing (rapidcheck, forked ASan/UBSan children): PCA identities recomputed in long double from an "
            "independent preprocessing reference; bit-identity on repetition, equality across processor counts (hook H1)",
            "Generated-input search over tall/square/wide matrices of controlled rank and spectrum, all 7 scalings, npc up to the rank "
            "(npc = rank forced in a third of the cases): orthonormal loadings, scores = successive projections, residual orthogonal to "
            "the loadings, variance bookkeeping, back-transformation and score prediction. Failures whose signature is the NIPALS plateau (two exact principal axes taken in the other order) are attributed to the known finding pca-nipals-plateau-order; every other failure is reported. GetResidualMatrix is exercised for every scaling option (models without stored averages included) and with more components than the model holds. Exploration of the counted cases only.",
            "Trusted: oracle preprocessing/SVD in /verif/engine/oracle.hpp; tolerance derivations in props/C01.cpp (T1/T3).",
            "DESIGN.md section 5, C01"),
    "C02": ("property-based testing (rapidcheck): differential against a long-double cyclic Jacobi eigen-solver of E0'E0 plus metamorphic "
            "relations (row permutation, column permutation, orthogonal rotation)",
            "Generated-input search over matrices with controlled gap ratios (slow-convergence ratios forced in 45 % of the cases) and "
            "magnitudes 1e-4..1e4; loadings/explained variance compared with the eigen-decomposition within the bound implied by the "
            "documented stopping rule (T3). A permutation of exact principal axes is attributed to the known finding pca-nipals-plateau-order; every other failure is reported. Exploration of the counted cases only.",
            "Trusted: Jacobi solver in oracle.hpp; the T3 bound (safety factor 5) is derived in DESIGN.md section 4.",
            "DESIGN.md section 5, C02"),
    "C03": ("property-based testing (rapidcheck, forked ASan/UBSan children): PLS structural identities recomputed in long double from "
            "the model fields and an independent preprocessing reference",
            "Generated-input search over X/Y of controlled conditioning, 1..4 responses, all 49 scaling pairs, nlv up to rank: orthogonal "
            "scores/weights, t_k = X_{k-1} w_k, residual orthogonality, score re-projection, LV-major layout of recalculated_y / "
            "recalc_residuals, PLSYPredictor / PLSYPredictorAllLV. A fifth of the cases are replicated two-level factorial designs with integer / exactly linear responses (X^T Y covariance exhausted before rank(X)). Exploration of the counted cases only.",
            "Trusted: oracle preprocessing in oracle.hpp; orthogonality tolerance derived from the measured conditioning of each LV.",
            "DESIGN.md section 5, C03"),
    "C04": ('property-based testing (rapidcheck, forked ASan/UBSan children): differential against Householder least squares in long double, RSS/R2 monotonicity, coefficient-form vs score-form predictions, metamorphic relation y -> c*y+d',
            'Generated-input search over full-column-rank X with 1..3 responses, noise 0..300 %, all scaling pairs, nlv = rank: OLS limit, monotone RSS/R2, PLSBetasCoeff vs PLSYPredictorAllLV on training and unseen rows, affine equivariance of a centred response. A fifth of the cases are replicated two-level factorial designs with integer / exactly linear responses (null latent variables before rank(X)). Exploration of the counted cases only.',
            'Trusted: oracle least squares / SVD in oracle.hpp; tolerances proportional to kappa^2 measured by the oracle.',
            "DESIGN.md section 5, C04"),
    "C05": ("property-based testing (rapidcheck, forked ASan/UBSan children): refit-through-the-public-API oracle on exactly the other folds (fold matrices reported by hook H4), metamorphic relation 'changing an object's own response leaves its prediction bit-identical', partition predicates enumerated for every group count",
            'Generated-input search over data sets, learners (PLS, MLR, LDA), LOO / labelled k-fold / bootstrap with thread counts 1..8: every prediction equals the prediction of a model refitted on the other folds, no leakage, partitions, residual columns. LDA is exercised in all three schemes; a third of the cases hand in result matrices already sized with another shape. Exploration of the counted cases only.',
            'Trusted: the model fitting/prediction API itself (checked by C03/C04/C07/C08) is used for the refit; hook H4 reports the folds actually used.',
            "DESIGN.md section 5, C05"),
    "C06": ("schedule-controlled property-based testing: the library's pthread_create/join are wrapped and its workers serialised at the RNG yield points (hook H2); interleavings are generated (rapidcheck, shrinkable) and, for 2-3 workers on 3-4 objects, enumerated exhaustively by depth-first re-execution; free-running repetition; ThreadSanitizer replay of generated cases",
            "Generated and enumerated schedules of the bootstrap workers' random-number calls: every schedule must give the fold matrices and predictions of the sequential run; three free-running repetitions bit-identical; no ThreadSanitizer report on generated inputs. The library sees a clock that changes at every call (linker --wrap=time), so a draw from an unseeded generator shows at the next repetition; every free-running routine (bootstrap, k-fold, leave-one-out, y-scrambling, k-means, EPLS random subspaces) is also compared with its sequential run; a reseed sub-property checks that seeding twice gives the same draws for every seed, the ones with internal state 0 included. Exhaustive only for the enumerated tiny configurations (stated in the evidence).",
            "Trusted: the scheduler controls interleaving at RNG-call granularity only; other shared accesses are covered by ThreadSanitizer's happens-before analysis on the schedules that happen to run.",
            "DESIGN.md section 5, C06"),
    "C07": ('property-based testing (rapidcheck, forked ASan/UBSan children): differential against Householder least squares on [1 X] in long double; normal-equation identities; metamorphic relations y -> c*y+d and X -> X*M; re-used output buffers',
            'Generated-input search over X (n x p, conditioning measured), 1..4 responses, noise 0..300 %: coefficients, residual orthogonality, R2/SDEC definitions, predictions on unseen rows into fresh and re-used outputs, equivariances. Exploration of the counted cases only.',
            'Trusted: oracle least squares / SVD in oracle.hpp.',
            "DESIGN.md section 5, C07"),
    "C08": ('property-based testing (rapidcheck, forked ASan/UBSan children): discriminant recomputed from the stored model in long double, validity predicates, metamorphic relations (invertible affine map, row permutation), AUC of perfect predictions',
            'Generated-input search over 2..5 classes, balanced/unbalanced, labels from 0 or 1, separations 1.5..30 sigma: priors/means, arg-max prediction in training labels, zero error when well separated, invariance of score differences, AUC = 1. Exploration of the counted cases only.',
            'Trusted: oracle SVD for the conditioning-aware tolerances.',
            "DESIGN.md section 5, C08"),
    "C09": ("property-based testing (rapidcheck): differential against a long-double Jacobi eigen-decomposition of the block-scaled concatenation and against the library's own PCA; identities between super scores, block scores and weights",
            'Generated-input search over 2..4 blocks, scaling 0..5, controlled gap ratios: super scores/explained variance vs PCA of the concatenation within the bound implied by the documented threshold, cumulative block variances, score prediction. 15 % of the cases are orthogonal designs split into blocks of unequal width (every column an exact eigenvector). Exploration of the counted cases only.',
            'Trusted: Jacobi solver and reference preprocessing in oracle.hpp.',
            "DESIGN.md section 5, C09"),
    "C13": ('enumeration inside generated cases: every (rows, threads) pair with rows 0..40 and threads 1..24 for each of 13 kernels, compared with the single-thread routine (bit-equal) and the long-double definition; property-based testing of distance definitions; exhaustive bijection check of the condensed index map for n <= 40',
            'Each slicing case enumerates all 984 (rows, threads) pairs for one kernel on generated strictly positive values with poisoned/zeroed outputs; distance matrices satisfy definition, symmetry, triangle inequality; condensed == strict upper triangle. Exhaustive for the slicing space per kernel visited (see evidence tags), exploration for values.',
            'Trusted: reference loops in props/C13.cpp; hook H1 sets the processor count seen by the MT_ kernels.',
            "DESIGN.md section 5, C13"),
    "C14": ('stateful (model-based) property-based testing: operation histories over pools of containers interpreted against a shadow model after every step under ASan+UBSan in forked children; rapidcheck shrinks the op list',
            'Generated histories of 1..40 operations (create/resize/copy/append shorter-equal-longer/delete/set/get/extend/sort/remove, out-of-range accessors) over vectors, matrices, tensors, lists: every cell and size equals the shadow model after every step, copies are deep, no sanitizer report. Out-of-range variants of setStr/getStr and of the row/column deletions, NewDVectorList(n) and rows of every length for TensorAppendRow are part of the operation set. Exploration of the counted histories only.',
            'Trusted: the shadow model in props/c14_interp.hpp encodes the documented meaning of each operation; clang ASan/UBSan.',
            "DESIGN.md section 5, C14"),
    "C15": ('property-based testing (rapidcheck): definitions in long double with forward error bounds; exact rational Mann-Whitney count; metamorphic relations (strictly increasing maps, permutation, negation)',
            'Generated-input search over regression vectors (scales 1e-6..1e6, missing-coded truths, perfect predictions) and binary classification with distinct scores: R2/MSE/RMSE/MAE/BIAS and statistic tables, ROC/PR shape, AUC = Mann-Whitney, invariances. Regression vectors also sit on levels of 1e2..1e7 x their spread, scores on scales 1e-6..1e3; the per-latent-variable ROC/PR curves stored by PLSDiscriminantAnalysisStatistics are compared point by point with ROC()/PrecisionRecall(). Exploration of the counted cases only.',
            'Trusted: the reference formulas in props/C15.cpp.',
            "DESIGN.md section 5, C15"),
    "C17": ('property-based testing (rapidcheck, forked ASan/UBSan children): validity predicates and optimality recomputed with textbook metrics in long double; differential MaxDis vs MaxDis_Fast; equality with the 1-thread run',
            'Generated-input search over objects in general position: distinct in-range indices, max-min optimality of every selection step, centroid = mean of members, nearest-centroid within the documented tolerance, thread-count independence. A sixth of the k-means cases have an object at the origin. Exploration of the counted cases only.',
            'Trusted: reference metrics in props/C17.cpp.',
            "DESIGN.md section 5, C17"),
    "C19": ('property-based testing (rapidcheck): piece identities and differential against a long-double natural spline, metamorphic unit change of x, exact polyline integral and additivity, simplex contracts on quadratics with known minimum',
            'Generated-input search over knot vectors with spacings 1e-4..1e4 (uniform, irregular, mixed by 6 decades), polylines, strictly convex quadratics in 2..6 dimensions (random rotated ones and grid-aligned ones with integer curvatures / half-integer starts and steps, on which objective values tie exactly). Simplex starts that are tiny against the distance to the minimiser (3+ dimensions) are drawn too; their failures are attributed to the known finding simplex-tiny-initial-steps-collapse. Exploration of the counted cases only.',
            'Trusted: reference spline in props/C19.cpp; the simplex convergence bound (1e-6 of the initial gap) is calibrated, see DESIGN.md section 7.',
            "DESIGN.md section 5, C19"),
    "C16": ('stateful property-based testing (rapidcheck, forked ASan/UBSan children): write/read histories over model files checked against a map path -> model last written; round-trip and prediction-equality oracles',
            'Generated histories of 1..5 Write*/Read* steps over 1..2 files and 1..3 PCA/PLS/CPCA models (magnitudes 1e-9..1e9, empty optional fields): every persisted field read back with the dimensions and values of the model last written, predictions equal, in-memory model untouched by writing. x and y blocks on different magnitudes, up to 3 components (tensors with a third block); every field of the structures is compared (dmodx included), predictions relative to their own size. Exploration of the counted histories only.',
            'Trusted: system SQLite; the list of persisted fields is taken from the Write* functions.',
            "DESIGN.md section 5, C16"),
    "C18": ('property-based testing (rapidcheck, forked children) on exactly representable degenerate data with a deterministic iteration ceiling (hook H3) as the non-termination oracle; identities on the components up to the numerical rank',
            'Generated integer/dyadic matrices of exact rank 0..min(shape), duplicated rows, constant columns/blocks/responses, more components than the rank, k-means with duplicate points, one-group cross-validation, simplex on constant / unbounded objectives: every call returns below the iteration ceiling, defined components are finite and satisfy the regular identities, variance beyond the rank is 0 and never NaN. PLS blocks with one constant and one varying response; the first latent variable must be non-null and maximise w^T(X^T Y Y^T X)w whenever X^T Y is not null; CPCA block variances must not be NaN. Exploration of the counted cases only.',
            "Trusted: 'bounded' means below 200000 NIPALS iterations / 5000 k-means++ passes (two orders above the slowest genuine case observed); oracle SVD for the numerical rank.",
            "DESIGN.md section 5, C18"),
    "C20": ("Hypothesis (python3-vt) differential between the repository's Python package and the same calls made from a C helper compiled against the current headers; live-object field reads through ctypes _fields_ vs the C view; compiled sizeof/offsetof table of the 10 mirrored structures",
            "Generated containers (integer elements over the full width of their C type, boundary-biased), PCA/PLS/CPCA fits, selections and splines through the package wrappers: every returned value and every model field equals what C sees; layout (size, offsets, member kinds, order) of all mirrored structures equals the compiler's. Decides the behaviourally visible part of the property; a parameter whose declared integer width differs without effect under the x86-64 ABI (lsci.PCA scaling: c_size_t vs int) is not detectable by generated inputs and is not claimed.",
            "Trusted: gcc's layout of the current headers; hypothesis 6.168; the worker runs in a subprocess so a crash of the bindings is an observed outcome.",
            "DESIGN.md section 5, C20"),
}

PENDING_REASON = "harness not built yet in this round (work in progress; see DESIGN.md section 5 for the planned check)"
NOT_APPLICABLE = {}


def hook_commits():
    out = subprocess.run(["git", "-C", "/repo", "log", "--format=%H %s"], stdout=subprocess.PIPE, text=True).stdout
    return [l.split()[0] for l in out.splitlines() if "verif hook" in l][::-1]


def main():
    props = [json.loads(l)["id"] for l in open(os.path.join(VERIF, "properties.jsonl"))]
    checks = []
    for pid in props:
        if pid not in CLAIMED:
            continue
        tech, text, note, ref = CLAIMED[pid]
        checks.append({
            "property_id": pid,
            "quick_cmd": "./check %s --tier quick" % pid,
            "thorough_cmd": "./check %s --tier thorough" % pid,
            "evidence_file": "/verif/evidence/%s.json" % pid,
            "replay_cmd_template": "./check %s --replay {path}" % pid,
            "engine": "hypothesis+ctypes" if pid == "C20" else "rapidcheck+fork",
            "level_claimed": {"category": "exploration", "text": text, "design_ref": ref},
            "level_note": note,
            "technique": tech,
        })
    na = []
    for pid in props:
        if pid in CLAIMED:
            continue
        na.append({"property_id": pid, "reason": NOT_APPLICABLE.get(pid, PENDING_REASON)})
    man = {
        "version": 1,
        "setup_cmd": "./check --setup",
        "hooks": {
            "guard": "LIBSCIENTIFIC_VERIF",
            "enable": "checks compile /repo/src/*.c themselves with -DLIBSCIENTIFIC_VERIF (clang, ASan+UBSan / TSan variants) into /verif/build",
            "baseline_off_cmd": "/verif/tools/baseline_off.sh",
            "source_commits": hook_commits(),
            "add_only": True,
        },
        "engines": [
            {"name": "hypothesis+ctypes", "path": "/verif/props/c20", "serves_properties": ["C20"],
             "kind_free_text": "Hypothesis strategies (python3-vt) driving the repository's Python package against libverifdump.so (C helper built from the current headers)"},
            {"name": "rapidcheck+fork", "path": "/verif/engine", "serves_properties": sorted(p for p in CLAIMED if p != "C20"),
             "kind_free_text": "rapidcheck generators/shrinking (engine_rc.cpp); each case runs in a forked child of an "
                               "ASan+UBSan build of /repo's working tree; replay files are plain text cases"},
        ],
        "checks": checks,
        "not_applicable": na,
        "notes": "All checks go through /verif/check (python3, stdlib). Known findings / fixed defects: /verif/known_findings.txt.",
    }
    json.dump(man, open(os.path.join(VERIF, "MANIFEST.json"), "w"), indent=1)
    print("wrote MANIFEST.json with %d checks, %d not_applicable" % (len(checks), len(na)))


if __name__ == "__main__":
    main()
