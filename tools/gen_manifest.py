#!/usr/bin/env python3
"""Regenerates /verif/MANIFEST.json from the table below (kept next to the code so it stays current)."""
import json, os, subprocess

VERIF = os.path.dirname(os.path.dirname(os.path.abspath(__file__)))

# property -> (technique, level text, level note, design ref)
CLAIMED = {
    "C11": ("property-based testing (rapidcheck, forked ASan/UBSan children) against long-double textbook loops; every "
            "shape 0..17 swept inside each case; algebraic laws as metamorphic relations",
            "Generated-input search: each kernel is compared with an independent long-double reference under a forward "
            "error bound (64*n*eps*sum|terms|), for every shape 0..17 per dimension and values 1e-6..1e6; failures shrink to a "
            "replay file. Exploration, not proof: absence is claimed only for the shapes and value patterns counted in the evidence.",
            "Trusted: the reference loops in /verif/engine/oracle.hpp and props/C11.cpp; clang ASan/UBSan; system libm.",
            "DESIGN.md section 5, C11"),
    "C10": ("property-based testing (rapidcheck, forked ASan/UBSan children) against a long-double reference of the seven "
            "documented options with explicit forward error bounds; fit path, apply path, new rows, MISSING cells, tensor blocks",
            "Generated-input search over matrices/tensors inside the stated domain (column scale >= 0.02 or exactly 0, up to 20 % "
            "missing cells, all options); every stored statistic and every observed transformed cell is compared with the reference. "
            "Exploration of the counted cases only.",
            "Trusted: reference statistics in /verif/engine/oracle.hpp (ref_preprocess) and the error-bound derivation in props/C10.cpp.",
            "DESIGN.md section 5, C10"),
    "C12": ("property-based testing (rapidcheck, forked ASan/UBSan children): defining equations (A*Ainv=I, Penrose conditions, "
            "A v = lambda v, U S Vt = A) and differential comparison with complete-pivoting / Householder / Jacobi oracles in long double",
            "Generated-input search over structured families (general with known spectrum, permutation, permuted triangular with singular "
            "leading minors, triangular, diagonal, SPD, indefinite; rectangular tall/wide) with condition number measured by the oracle; "
            "tolerances proportional to n*eps*kappa (kappa^2 for normal-equation routines). Exploration of the counted cases only.",
            "Trusted: oracle solvers in /verif/engine/oracle.hpp; system LAPACK is part of the tested code path, not of the oracle.",
            "DESIGN.md section 5, C12"),
    "C01": ("property-based testing (rapidcheck, forked ASan/UBSan children): PCA identities recomputed in long double from an "
            "independent preprocessing reference; bit-identity on repetition, equality across processor counts (hook H1)",
            "Generated-input search over tall/square/wide matrices of controlled rank and spectrum, all 7 scalings, npc up to the rank "
            "(npc = rank forced in a third of the cases): orthonormal loadings, scores = successive projections, residual orthogonal to "
            "the loadings, variance bookkeeping, back-transformation and score prediction. Exploration of the counted cases only.",
            "Trusted: oracle preprocessing/SVD in /verif/engine/oracle.hpp; tolerance derivations in props/C01.cpp (T1/T3).",
            "DESIGN.md section 5, C01"),
    "C02": ("property-based testing (rapidcheck): differential against a long-double cyclic Jacobi eigen-solver of E0'E0 plus metamorphic "
            "relations (row permutation, column permutation, orthogonal rotation)",
            "Generated-input search over matrices with controlled gap ratios (slow-convergence ratios forced in 45 % of the cases) and "
            "magnitudes 1e-4..1e4; loadings/explained variance compared with the eigen-decomposition within the bound implied by the "
            "documented stopping rule (T3). Exploration of the counted cases only.",
            "Trusted: Jacobi solver in oracle.hpp; the T3 bound (safety factor 5) is derived in DESIGN.md section 4.",
            "DESIGN.md section 5, C02"),
    "C03": ("property-based testing (rapidcheck, forked ASan/UBSan children): PLS structural identities recomputed in long double from "
            "the model fields and an independent preprocessing reference",
            "Generated-input search over X/Y of controlled conditioning, 1..4 responses, all 49 scaling pairs, nlv up to rank: orthogonal "
            "scores/weights, t_k = X_{k-1} w_k, residual orthogonality, score re-projection, LV-major layout of recalculated_y / "
            "recalc_residuals, PLSYPredictor / PLSYPredictorAllLV. Exploration of the counted cases only.",
            "Trusted: oracle preprocessing in oracle.hpp; orthogonality tolerance derived from the measured conditioning of each LV.",
            "DESIGN.md section 5, C03"),
}

PENDING_REASON = "harness not built yet in this round (work in progress; see DESIGN.md section 5 for the planned check)"
NOT_APPLICABLE = {}


def hook_commits():
    out = subprocess.run(["git", "-C", "/repo", "log", "--format=%H %s"], stdout=subprocess.PIPE, text=True).stdout
    return [l.split()[0] for l in out.splitlines() if "verif hook" in l][::-1]


def main():
    props = [json.loads(l)["id"] for l in open(os.path.join(VERIF, "properties.jsonl"))]
    checks = []
    for pid in props:
        if pid not in CLAIMED:
            continue
        tech, text, note, ref = CLAIMED[pid]
        checks.append({
            "property_id": pid,
            "quick_cmd": "./check %s --tier quick" % pid,
            "thorough_cmd": "./check %s --tier thorough" % pid,
            "evidence_file": "/verif/evidence/%s.json" % pid,
            "replay_cmd_template": "./check %s --replay {path}" % pid,
            "engine": "rapidcheck+fork",
            "level_claimed": {"category": "exploration", "text": text, "design_ref": ref},
            "level_note": note,
            "technique": tech,
        })
    na = []
    for pid in props:
        if pid in CLAIMED:
            continue
        na.append({"property_id": pid, "reason": NOT_APPLICABLE.get(pid, PENDING_REASON)})
    man = {
        "version": 1,
        "setup_cmd": "./check --setup",
        "hooks": {
            "guard": "LIBSCIENTIFIC_VERIF",
            "enable": "checks compile /repo/src/*.c themselves with -DLIBSCIENTIFIC_VERIF (clang, ASan+UBSan / TSan variants) into /verif/build",
            "baseline_off_cmd": "/verif/tools/baseline_off.sh",
            "source_commits": hook_commits(),
            "add_only": True,
        },
        "engines": [
            {"name": "rapidcheck+fork", "path": "/verif/engine", "serves_properties": sorted(CLAIMED),
             "kind_free_text": "rapidcheck generators/shrinking (engine_rc.cpp); each case runs in a forked child of an "
                               "ASan+UBSan build of /repo's working tree; replay files are plain text cases"},
        ],
        "checks": checks,
        "not_applicable": na,
        "notes": "All checks go through /verif/check (python3, stdlib). Known findings / fixed defects: /verif/known_findings.txt.",
    }
    json.dump(man, open(os.path.join(VERIF, "MANIFEST.json"), "w"), indent=1)
    print("wrote MANIFEST.json with %d checks, %d not_applicable" % (len(checks), len(na)))


if __name__ == "__main__":
    main()
