#!/usr/bin/env python3
"""Prompt for a sub-agent that writes behaviour-PRESERVING changes (the checks must stay silent on them)."""
import json, sys
wt = sys.argv[1]; ids = sys.argv[2:]
props = {}
for l in open('/verif/properties.jsonl'):
    d = json.loads(l); props[d['id']] = d
txt = ""
for i in ids:
    d = props[i]
    txt += f"\n--- {i}: {d['title']}\nSTATEMENT: {d['statement']}\nQUANTIFIED OVER: {d['quantifier']['text']}\nCODE ANCHORS: files {', '.join(d['anchors']['files'])}\n"
print(f"""You are given a scratch git worktree of the C library libscientific (chemometrics / multivariate statistics: PCA, PLS, MLR, LDA, clustering, cross-validation, dense linear algebra, Python bindings) at {wt}. Work ONLY inside {wt} (never touch /repo or /verif, do not read /verif).

Below are {len(ids)} semantic properties the library satisfies. Somebody has written automatic checkers for them; we want to know whether those checkers raise FALSE alarms on legitimate maintenance work. YOUR TASK: for EACH property write TWO different realistic source changes to the code the property is anchored in (library sources under {wt}/src, or {wt}/src/python_bindings for the bindings property; NOT the tests) that a maintainer could legitimately make and under which the property STILL HOLDS for every input in its quantifier - but which change the internals / low-order bits / incidental behaviour as much as a legitimate change may. Examples of the kind wanted: a different summation or loop order; an algebraically equivalent formula; replacing a hand-written loop by an equivalent one (or by a LAPACK/BLAS-free equivalent); a tighter convergence tolerance or a larger iteration cap; a different (equally valid) starting vector or pivot choice where the property does not fix one; flipping the sign convention of a component where the property does not fix the sign; a different partition of work among threads; a different but still seed-deterministic way of consuming the random stream; allocating / resizing temporaries differently; extra fields or padding that readers ignore; different text formatting that round-trips; a different tie-break where the property allows any; changing what an output container holds BEFORE the call overwrites it; and so on. The change must keep the library compiling and the existing test-suite passing, and must NOT weaken anything the property promises (if in doubt, stay on the safe side: the aim is a change under which the property certainly holds, not a borderline one). Make the changes non-trivial: something that really alters floating-point results in the last bits, iteration counts, orders, memory layout or intermediate state - not a comment or a rename.
{txt}
Steps:
1. Read the relevant code. Build the unchanged tree once: cmake -G Ninja -S {wt} -B {wt}/_b -DCMAKE_BUILD_TYPE=RelWithDebInfo -DCMAKE_C_FLAGS=-Wno-error && cmake --build {wt}/_b -j4 . Test binaries are in {wt}/_b/src/tests (run each from that directory; a test passes when it exits 0; 'testica' aborts on the unchanged tree already, ignore it). testpca/testpls/testcpca are slow; run at least the tests covering the files you touch, after each change (use at most 4 parallel jobs, the machine is shared).
2. For each change k of property Cxx: start from the clean tree (git -C {wt} checkout -- src), make the change, rebuild, run the relevant tests, then save it as {wt}/benign/Cxx-k.diff (output of `git -C {wt} diff -- src`) together with {wt}/benign/Cxx-k.md (3-6 lines: what was changed, why the property still holds for every input, which tests were run). Then revert (git -C {wt} checkout -- src) before the next one. Each diff must apply on its own to the clean tree.
3. At the end leave the worktree clean and remove {wt}/_b (disk is limited).

Report back a short list: file name of each diff and one line saying what it does.""")
