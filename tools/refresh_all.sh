#!/bin/bash
# Re-runs every registered quick check on /repo's current working tree (must be clean) and validates MANIFEST / evidence
# against the schemas.  Run before committing evidence: mutant and seed runs overwrite evidence/*.json.
cd /verif
git -C /repo diff --quiet || { echo "/repo has uncommitted changes"; exit 2; }
fail=0
for c in $(python3 -c "import json; print(' '.join(x['property_id'] for x in json.load(open('MANIFEST.json'))['checks']))"); do
  t0=$(date +%s)
  ./check $c --tier quick > build/refresh_$c.log 2>&1; rc=$?
  echo "$c exit=$rc violations=$(grep -c '^VIOLATION' build/refresh_$c.log) inconclusive=$(grep -c INCONCLUSIVE build/refresh_$c.log) wall=$(( $(date +%s) - t0 ))s"
  [ $rc -ne 0 ] && fail=1
done
python3-vt - <<'PY'
import json, jsonschema, glob
jsonschema.validate(json.load(open('/verif/MANIFEST.json')), json.load(open('/root/.vp/MANIFEST.schema.json')))
sch = json.load(open('/root/.vp/EVIDENCE.schema.json'))
for c in json.load(open('/verif/MANIFEST.json'))['checks']:
    e = json.load(open(c['evidence_file'])); jsonschema.validate(e, sch)
    assert e['violations'] == 0, c['property_id']
print('manifest and evidence validate')
PY
exit $fail
