#!/usr/bin/env python3
"""Writes /verif/seeded/<name>/meta.json from the verification and check logs kept next to each seeded change."""
import os, json, glob, re
SEEDS = {
 "C01-scorepredictor-noreset": ("C01", "PCAScorePredictor no longer clears its score buffer between components", "processor count seen by the kernels exactly 1 (serial MatrixDVectorDotProduct accumulates) and >= 2 components projected; with >= 2 processors the threaded kernel zeroes its output"),
 "C02-drop-p-reset": ("C02", "the loading vector is not cleared inside the NIPALS loop of PCA() (the original defect, re-introduced independently)", "preprocessed data of small magnitude (eigenvalues of E'E around or below 1): scaling -1/0 on data <= 0.1"),
 "C03-level-scaling-negative-mean": ("C03", "apply path of MatrixPreprocess zeroes a column when its stored scale is < 1e-2 instead of |scale| < 1e-2", "level scaling (option 5) with a column of negative mean, on any re-projection path (PLSScorePredictor, PCAScorePredictor)"),
 "C10-minmax-seed-row0": ("C10", "MatrixColumnMinMax seeds min/max from row 0 without the MISSING test (the original defect, re-introduced independently)", "range scaling (option 4) with a missing-coded cell in the first row of a column"),
 "C11-unroll-tail": ("C11", "unrolled matrix product: wrong row of B in the 3-element tail", "inner dimension >= 4 with inner % 4 == 3 (7, 11, 15); self-consistency laws still hold, only the definition is violated"),
 "C12-det-sign": ("C12", "MatrixDeterminant: cofactor sign kept in a running variable that is not flipped when a zero entry is skipped", "n >= 3 with an exact zero in the expanded row followed by a non-zero entry (permutation matrices, zero leading entries)"),
}
def main():
    extra = {}
    p = "/verif/tools/seed_table.json"
    if os.path.exists(p): extra = json.load(open(p))
    table = dict(SEEDS); table.update({k: tuple(v) for k, v in extra.items()})
    for name, (prop, what, needs) in table.items():
        d = "/verif/seeded/" + name
        if not os.path.isdir(d): continue
        ver = open(d + "/verify.log").read() if os.path.exists(d + "/verify.log") else ""
        m = re.search(r"RESULT tests_rc=(\S+) demo_with=(\S+) demo_without=(\S+)", ver)
        checks = {}
        for f in sorted(glob.glob(d + "/check_*.log")):
            c = os.path.basename(f)[6:-4]; txt = open(f).read()
            checks[c] = {"detected": txt.startswith("VIOLATION"), "first_violation": txt.splitlines()[0][:300] if txt.startswith("VIOLATION") else None}
        meta = {"property": prop, "change": what, "needs_to_manifest": needs, "source": "independent sub-agent given only the property text and a scratch worktree",
                "confirmed": {"existing_tests_pass_with_change": m.group(1) == "0" if m else None, "demo_exit_with_change": m.group(2) if m else None, "demo_exit_without_change": m.group(3) if m else None,
                              "how": "tools/seed_verify.sh: cmake build of the worktree with and without patch.diff, every test binary run and compared with the 62 baseline names, demo.c built against each build"},
                "quick_checks_run_against_it": checks, "how_checks_were_run": "tools/seed_check.sh: git -C /repo apply patch.diff; ./check <property>; git -C /repo checkout -- ."}
        json.dump(meta, open(d + "/meta.json", "w"), indent=1)
        print(name, {k: v["detected"] for k, v in checks.items()})
main()
