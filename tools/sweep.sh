#!/bin/bash
# Regression sweep used with `vp run --with-repo`: quick tier for the given seeds, then the thorough tier for the given properties.
#   tools/sweep.sh "<seeds>" "<thorough properties>"      (VERIF_REPO / VP_RUN_REPO select the tree; budget via VERIF_THOROUGH_BUDGET_S)
cd "$(dirname "$0")/.."
[ -n "$VP_RUN_REPO" ] && export VERIF_REPO="$VP_RUN_REPO"
./check --setup > setup.log 2>&1
ALL="C01 C02 C03 C04 C05 C06 C07 C08 C09 C10 C11 C12 C13 C14 C15 C16 C17 C18 C19 C20"
summ() { # log file -> counts
  echo "viol=$(grep -c '^VIOLATION' $1) inconcl=$(grep -c INCONCLUSIVE $1) flaky=$(grep -c FLAKY $1) known=$(grep -c '^KNOWN-FINDING' $1)"
}
for s in $1; do
  for p in $ALL; do
    ./check $p --tier quick --seed $s > q_${p}_$s.log 2>&1; e=$?
    echo "seed $s $p exit $e $(summ q_${p}_$s.log)"
  done
done
for p in $2; do
  t0=$(date +%s)
  ./check $p --tier thorough > t_$p.log 2>&1; e=$?
  echo "thorough $p exit $e $(summ t_$p.log) wall=$(( $(date +%s) - t0 ))"
done
