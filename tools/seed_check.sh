#!/bin/bash
# usage: seed_check.sh <seed-name> <property> [more properties...]  -- applies /verif/seeded/<name>/patch.diff to /repo,
# runs the quick checks, reverts.  Prints one line per property.
set -u
name=$1; shift
R=${VERIF_REPO:-/repo}; cd $R; git diff --quiet || { echo "$R has uncommitted changes"; exit 2; }
git apply /verif/seeded/$name/patch.diff || { echo "PATCH-DOES-NOT-APPLY to $R"; exit 2; }
cd /verif
for prop in "$@"; do
  t0=$(date +%s)
  timeout 2400 ./check $prop > build/seed_${name}_$prop.log 2>&1; rc=$?
  nv=$(grep -c "^VIOLATION" build/seed_${name}_$prop.log)
  echo "SEED $name vs $prop: exit=$rc violations=$nv wall=$(( $(date +%s) - t0 ))s  $(grep '^VIOLATION' build/seed_${name}_$prop.log | head -1 | cut -c1-260)"
done
git -C $R checkout -- .
