#!/bin/bash
# usage: seed_verify.sh <seed-name> <worktree>   -- confirms a sub-agent's change in its scratch worktree:
#   with the patch: library builds, the 62 baseline test names pass, the demo fails; without: the demo passes.
# Copies patch.diff / demo / README into /verif/seeded/<seed-name>/ and writes verify.log there.
set -u
name=$1; wt=$2; out=/verif/seeded/$name
mkdir -p $out; cp $wt/demo/patch.diff $wt/demo/README.md $out/ 2>/dev/null; cp $wt/demo/demo.c $out/ 2>/dev/null
cp $wt/demo/*.c $wt/demo/*.sh $out/ 2>/dev/null
log=$out/verify.log; : > $log
cd $wt
git checkout -q -- src 2>>$log; git apply $out/patch.diff 2>>$log || { echo "PATCH-DOES-NOT-APPLY" | tee -a $log; exit 2; }
build() { rm -rf $wt/_b; cmake -G Ninja -S $wt -B $wt/_b -DCMAKE_BUILD_TYPE=RelWithDebInfo -DCMAKE_C_FLAGS=-Wno-error >/dev/null 2>>$log && cmake --build $wt/_b -j8 >/dev/null 2>>$log; }
demo() { gcc -O1 -I$wt/src -I$wt/_b $out/demo.c -o $wt/_b/demo_bin -L$wt/_b/src -lscientific -lm -lpthread -Wl,-rpath,$wt/_b/src >>$log 2>&1 || { echo "DEMO-BUILD-FAILED" >> $log; return 99; }
         (cd $wt/_b && timeout 600 ./demo_bin > demo.out 2>&1; echo $?); }
build || { echo "BUILD-FAILED-WITH-PATCH" | tee -a $log; exit 2; }
echo "== tests with patch" >> $log; python3 /verif/tools/baseline_compare.py $wt/_b >> $log 2>&1; trc=$?
drc_with=$(demo); echo "demo with patch: exit $drc_with" >> $log; tail -3 $wt/_b/demo.out >> $log
git checkout -q -- src
build || { echo "BUILD-FAILED-WITHOUT-PATCH" | tee -a $log; exit 2; }
drc_without=$(demo); echo "demo without patch: exit $drc_without" >> $log
rm -rf $wt/_b
echo "RESULT tests_rc=$trc demo_with=$drc_with demo_without=$drc_without" | tee -a $log
