#!/bin/bash
# usage: try_mutant.sh <property> <sed-expression> <file-under-/repo/src>   (applies, runs the quick check, reverts)
# or:    try_mutant.sh <property> --patch <patchfile>
set -u
prop=$1; shift
cd /repo
if [ "$1" = "--patch" ]; then git apply "$2" || { echo "patch does not apply"; exit 2; }
else sed -i "$1" "src/$2"; fi
if git diff --quiet; then echo "MUTANT-NOOP (no change)"; exit 2; fi
git diff --stat | tail -1
cd /verif
timeout 1500 ./check "$prop" > build/mut_$prop.log 2>&1; rc=$?
grep -c "^VIOLATION" build/mut_$prop.log | sed 's/^/violations: /'
grep "^VIOLATION" build/mut_$prop.log | head -2 | cut -c1-330
echo "exit=$rc"
git -C /repo checkout -- . 
