// Engine core: case (de)serialisation, forked execution of predicates, outcome classification,
// statistics.  No rapidcheck in here (the TSan / replay-only binaries link this file alone).
#include "engine_core.hpp"
#include <atomic>
#include <cstdarg>
#include <cinttypes>
#include <cerrno>
#include <csignal>
#include <fstream>
#include <sstream>
#include <algorithm>
#include <unistd.h>
#include <fcntl.h>
#include <sys/wait.h>
#include <sys/mman.h>
#include <sys/stat.h>

extern "C" {
extern size_t libsci_verif_nproc;
extern void (*libsci_verif_tick)(int site);
extern void (*libsci_verif_rng_hook)(int op, unsigned int arg, int phase);
extern void (*libsci_verif_fold_hook)(const void *gid, unsigned int seed);
// sanitizer defaults: a report is an exit code the parent recognises, leaks are not a listed property
const char *__asan_default_options() {
  return "exitcode=97:detect_leaks=0:abort_on_error=0:allocator_may_return_null=1:handle_abort=0:"
         "detect_stack_use_after_return=0:print_summary=1:symbolize=1";
}
const char *__ubsan_default_options() { return "exitcode=97:halt_on_error=1:print_stacktrace=0"; }
const char *__tsan_default_options() { return "exitcode=96:halt_on_error=1:report_signal_unsafe=0"; }
}

namespace vf {

// ------------------------------------------------------------------ serialisation
std::string serialize(const Case &c) {
  std::string s;
  s += "sub " + c.sub + "\n";
  s += "p " + std::to_string(c.p.size());
  for (auto x : c.p) s += " " + std::to_string(x);
  s += "\n";
  s += "v " + std::to_string(c.v.size());
  char buf[64];
  for (auto x : c.v) { snprintf(buf, sizeof buf, " %a", x); s += buf; }
  s += "\n";
  return s;
}

bool parse_case(const std::string &text, Case &c) {
  std::istringstream in(text);
  std::string key;
  c = Case();
  bool gotsub = false;
  while (in >> key) {
    if (key == "sub") { in >> c.sub; gotsub = true; }
    else if (key == "p") { size_t n; in >> n; c.p.resize(n); for (auto &x : c.p) in >> x; }
    else if (key == "v") {
      size_t n; in >> n; c.v.resize(n);
      for (auto &x : c.v) { std::string t; in >> t; x = strtod(t.c_str(), nullptr); }
    } else if (key == "#") { std::string rest; std::getline(in, rest); }
    else { std::string rest; std::getline(in, rest); }
  }
  return gotsub;
}

uint64_t case_hash(const Case &c) {
  uint64_t h = 1469598103934665603ULL;
  auto mix = [&](const void *d, size_t n) {
    const unsigned char *b = (const unsigned char *)d;
    for (size_t i = 0; i < n; i++) { h ^= b[i]; h *= 1099511628211ULL; }
  };
  mix(c.sub.data(), c.sub.size());
  for (auto x : c.p) mix(&x, sizeof x);
  for (auto x : c.v) mix(&x, sizeof x);
  return h;
}

std::string fmt(const char *f, ...) {
  char buf[2048];
  va_list ap; va_start(ap, f); vsnprintf(buf, sizeof buf, f, ap); va_end(ap);
  return buf;
}

// ------------------------------------------------------------------ child-side reporting
static int g_proto_fd = -1;      // >= 0 inside a forked child
struct InProc {                  // in-process (nofork) collection
  std::vector<std::string> lines;
};
static InProc *g_inproc = nullptr;
struct FailEx { };

static void proto(const std::string &line) {
  std::string l = line;
  for (auto &ch : l) if (ch == '\n') ch = ' ';
  l += "\n";
  if (g_proto_fd >= 0) { ssize_t r = write(g_proto_fd, l.data(), l.size()); (void)r; }
  else if (g_inproc) g_inproc->lines.push_back(l.substr(0, l.size() - 1));
}
// in-process capture (used by the libFuzzer target, which runs the predicate without forking)
static InProc g_capture;
void capture_begin() { g_capture.lines.clear(); g_inproc = &g_capture; }
std::string capture_end() { g_inproc = nullptr; std::string out; for (auto &l : g_capture.lines) if (l.size() > 2 && (l[0] == 'F' || l[0] == 'K')) out += l.substr(2) + "; "; return out; }
void tag(const std::string &t) { proto("T " + t); }
void nontrivial() { proto("N"); }
void pre_known(const std::string &sig) { proto("P " + sig); }
void clear_pre_known() { proto("P -"); }
void expect_abort(bool on) { proto(on ? "A 1" : "A 0"); }
void fail_known(const std::string &sig, const std::string &msg) {
  proto("K " + sig + " " + msg);
  if (g_proto_fd >= 0) _exit(1);
  throw FailEx();
}
void fail(const std::string &msg) {
  proto("F " + msg);
  if (g_proto_fd >= 0) _exit(1);
  throw FailEx();
}

static long g_tick_ceiling = 300000;
static std::atomic<long> g_ticks[8];   // the tick hook is called from the library's worker threads
static void tick_fn(int site) {
  if (site >= 0 && site < 8) g_ticks[site].fetch_add(1, std::memory_order_relaxed);
  long tot = 0; for (int i = 0; i < 8; i++) tot += g_ticks[i].load(std::memory_order_relaxed);
  if (tot > g_tick_ceiling) {
    proto("X tick-ceiling site=" + std::to_string(site));
    _exit(98);
  }
}
void set_tick_ceiling(long n) { g_tick_ceiling = n; }
long ticks(int site) { return site >= 0 && site < 8 ? g_ticks[site].load() : 0; }
void reset_ticks() { for (auto &t : g_ticks) t = 0; }

// ------------------------------------------------------------------ known findings
static std::set<std::string> g_known;
static bool g_known_loaded = false;
static std::string g_verif_dir = "/verif";
void set_verif_dir(const std::string &d) { g_verif_dir = d; }
const std::string &verif_dir() { return g_verif_dir; }
static void load_known() {
  if (g_known_loaded) return;
  g_known_loaded = true;
  std::ifstream in(g_verif_dir + "/known_findings.txt");
  std::string line;
  while (std::getline(in, line)) {
    if (line.rfind("known:", 0) != 0) continue;
    auto pos = line.find("sig=");
    if (pos == std::string::npos) continue;
    auto end = line.find(' ', pos);
    g_known.insert(line.substr(pos + 4, end == std::string::npos ? std::string::npos : end - pos - 4));
  }
}
bool known_listed(const std::string &sig) { load_known(); return g_known.count(sig) > 0; }

const Sub *find_sub(const std::string &name) {
  for (auto &s : property().subs) if (name == s.name) return &s;
  return nullptr;
}

// ------------------------------------------------------------------ running one case
static std::string read_fd_all(int fd, size_t cap) {
  std::string out;
  lseek(fd, 0, SEEK_SET);
  char buf[4096];
  ssize_t n;
  while ((n = read(fd, buf, sizeof buf)) > 0) {
    out.append(buf, (size_t)n);
    if (out.size() > cap) break;
  }
  return out;
}

static std::string sanitizer_summary(const std::string &err) {
  std::string out;
  std::istringstream in(err);
  std::string line;
  int frames = 0;
  while (std::getline(in, line)) {
    if (line.find("ERROR: AddressSanitizer") != std::string::npos ||
        line.find("runtime error:") != std::string::npos ||
        line.find("WARNING: ThreadSanitizer") != std::string::npos ||
        line.find("ERROR: UndefinedBehaviorSanitizer") != std::string::npos) {
      if (out.size() < 600) out += line + " | ";
    } else if (line.find("    #") != std::string::npos && frames < 10 && !out.empty()) {
      auto p = line.find(" in ");
      if (p != std::string::npos) { out += line.substr(p + 4) + " < "; frames++; }
      else {   // ThreadSanitizer frame: "    #0 function file:line (module+0x..)"
        auto q = line.find('#'); auto sp = line.find(' ', q);
        if (sp != std::string::npos) { std::string rest = line.substr(sp + 1); auto par = rest.find(" ("); out += rest.substr(0, par) + " < "; frames++; }
      }
    } else if ((line.find("Previous ") != std::string::npos || line.find("Write of size") != std::string::npos || line.find("Read of size") != std::string::npos) && out.size() < 900) {
      out += "| " + line + " ";
    }
  }
  if (out.empty()) {
    out = err.substr(0, 400);
    for (auto &ch : out) if (ch == '\n') ch = '|';
  }
  return out;
}

static void interpret(const std::vector<std::string> &lines, Outcome &o, std::string &pre, bool &abort_ok,
                      bool &verdict) {
  for (auto &l : lines) {
    if (l.empty()) continue;
    char k = l[0];
    std::string rest = l.size() > 2 ? l.substr(2) : "";
    if (k == 'T') o.tags.push_back(rest);
    else if (k == 'N') o.nontrivial = true;
    else if (k == 'P') pre = (rest == "-") ? "" : rest;
    else if (k == 'A') abort_ok = (rest == "1");
    else if (k == 'O') { verdict = true; }
    else if (k == 'F') { verdict = true; o.kind = Outcome::FAIL; o.msg = rest; }
    else if (k == 'X') { o.msg = rest; }
    else if (k == 'K') {
      verdict = true;
      auto sp = rest.find(' ');
      std::string sig = rest.substr(0, sp);
      std::string msg = sp == std::string::npos ? "" : rest.substr(sp + 1);
      o.sig = sig;
      if (known_listed(sig)) { o.kind = Outcome::KNOWN; o.msg = msg; }
      else { o.kind = Outcome::FAIL; o.msg = "[" + sig + "] " + msg; }
    }
  }
}

static std::vector<std::string> split_lines(const std::string &s) {
  std::vector<std::string> v;
  std::istringstream in(s);
  std::string l;
  while (std::getline(in, l)) v.push_back(l);
  return v;
}

static int g_case_timeout = 120;
void set_case_timeout(int s) { g_case_timeout = s; }

Outcome run_case(const Sub &s, const Case &c) {
  Outcome o;
  std::string pre;
  bool abort_ok = false, verdict = false;
  load_known();
  if (s.nofork) {
    InProc ip; g_inproc = &ip;
    try { s.pred(c); ip.lines.push_back("O"); } catch (FailEx &) {}
    g_inproc = nullptr;
    interpret(ip.lines, o, pre, abort_ok, verdict);
    return o;
  }
  int pfd = memfd_create("vfproto", 0);
  int efd = memfd_create("vferr", 0);
  if (pfd < 0 || efd < 0) { perror("memfd_create"); exit(3); }
  fflush(stdout); fflush(stderr);
  pid_t pid = fork();
  if (pid < 0) { perror("fork"); exit(3); }
  if (pid == 0) {
    g_proto_fd = pfd;
    dup2(efd, 1); dup2(efd, 2);
    reset_ticks();
    libsci_verif_tick = tick_fn;
    libsci_verif_nproc = 1;
    libsci_verif_rng_hook = nullptr;
    libsci_verif_fold_hook = nullptr;
    signal(SIGALRM, SIG_DFL);
    alarm((unsigned)(s.timeout_s > 0 ? s.timeout_s : g_case_timeout));
    s.pred(c);
    proto("O");
    fflush(stdout);
    _exit(0);
  }
  int st = 0;
  while (waitpid(pid, &st, 0) < 0 && errno == EINTR) {}
  std::string plines = read_fd_all(pfd, 1 << 20);
  std::string err = read_fd_all(efd, 1 << 16);
  close(pfd); close(efd);
  interpret(split_lines(plines), o, pre, abort_ok, verdict);
  if (verdict && (WIFEXITED(st) && (WEXITSTATUS(st) == 0 || WEXITSTATUS(st) == 1))) return o;
  // abnormal end
  std::string how;
  if (WIFSIGNALED(st)) {
    int sg = WTERMSIG(st);
    if (sg == SIGALRM) { o.kind = Outcome::INCONCLUSIVE; o.msg = "wall-clock alarm"; return o; }
    if (sg == SIGABRT && abort_ok) { o.kind = Outcome::OK; o.tags.push_back("clean-abort"); return o; }
    how = std::string("killed by signal ") + std::to_string(sg) + " (" + strsignal(sg) + ")";
  } else if (WIFEXITED(st)) {
    int ec = WEXITSTATUS(st);
    if (ec == 97) how = "sanitizer report";
    else if (ec == 98) how = "non-termination (iteration ceiling) " + o.msg;
    else if (ec == 96) how = "thread sanitizer report";
    else how = "child exit code " + std::to_string(ec) + " without verdict";
  }
  std::string msg = how + ": " + sanitizer_summary(err);
  if (!pre.empty()) {
    o.sig = pre;
    if (known_listed(pre)) { o.kind = Outcome::KNOWN; o.msg = msg; return o; }
    msg = "[" + pre + "] " + msg;
  }
  o.kind = Outcome::FAIL;
  o.msg = msg;
  return o;
}

// ------------------------------------------------------------------ statistics
static std::string jesc(const std::string &s) {
  std::string o;
  for (unsigned char ch : s) {
    if (ch == '"' || ch == '\\') { o += '\\'; o += (char)ch; }
    else if (ch == '\n') o += "\\n";
    else if (ch < 0x20) o += ' ';
    else o += (char)ch;
  }
  return o;
}

void SubStats::record(const Case &c, const Outcome &o) {
  evaluations++;
  bool nt = c.nontrivial || o.nontrivial;
  uint64_t h = case_hash(c);
  all_hashes.insert(h);
  if (nt) {
    bool fresh = nt_hashes.insert(h).second;
    if (fresh && samples.size() < 4 && (nt_hashes.size() % 37 == 1 || samples.size() < 2)) {
      std::string s = serialize(c);
      if (s.size() > 1500) s = s.substr(0, 1500) + " ...";
      samples.push_back(s);
    }
  }
  for (auto &t : c.tags) tags[t]++;
  for (auto &t : o.tags) tags[t]++;
  if (o.kind == Outcome::KNOWN) { excluded_known++; known_sigs[o.sig]++; }
  if (o.kind == Outcome::INCONCLUSIVE) inconclusive++;
}

std::string SubStats::json(const std::string &name) const {
  std::string s = "{\"name\":\"" + jesc(name) + "\",\"evaluations\":" + std::to_string(evaluations) +
                  ",\"distinct\":" + std::to_string(all_hashes.size()) +
                  ",\"excluded_known\":" + std::to_string(excluded_known) +
                  ",\"inconclusive\":" + std::to_string(inconclusive) + ",\"nt_hashes\":[";
  bool first = true;
  for (auto h : nt_hashes) { if (!first) s += ","; first = false; s += "\"" + fmt("%016" PRIx64, h) + "\""; }
  s += "],\"tags\":{";
  first = true;
  for (auto &kv : tags) { if (!first) s += ","; first = false; s += "\"" + jesc(kv.first) + "\":" + std::to_string(kv.second); }
  s += "},\"known_sigs\":{";
  first = true;
  for (auto &kv : known_sigs) { if (!first) s += ","; first = false; s += "\"" + jesc(kv.first) + "\":" + std::to_string(kv.second); }
  s += "},\"samples\":[";
  first = true;
  for (auto &x : samples) { if (!first) s += ","; first = false; s += "\"" + jesc(x) + "\""; }
  s += "],\"failures\":[";
  first = true;
  for (auto &f : failures) {
    if (!first) s += ","; first = false;
    s += "{\"replay\":\"" + jesc(f.first) + "\",\"msg\":\"" + jesc(f.second) + "\"}";
  }
  s += "]}";
  return s;
}

bool write_file(const std::string &path, const std::string &content) {
  std::ofstream out(path, std::ios::binary | std::ios::trunc);
  if (!out) return false;
  out << content;
  return (bool)out;
}
bool read_file(const std::string &path, std::string &content) {
  std::ifstream in(path, std::ios::binary);
  if (!in) return false;
  std::stringstream ss; ss << in.rdbuf(); content = ss.str();
  return true;
}

// Replays one saved case.  Exit status: 0 ok / known, 1 fail, 2 inconclusive, 3 usage.
int replay_main(const std::string &path) {
  std::string text;
  if (!read_file(path, text)) { fprintf(stderr, "cannot read %s\n", path.c_str()); return 3; }
  Case c;
  if (!parse_case(text, c)) { fprintf(stderr, "cannot parse %s\n", path.c_str()); return 3; }
  const Sub *s = find_sub(c.sub);
  if (!s) { fprintf(stderr, "unknown sub-property %s\n", c.sub.c_str()); return 3; }
  Outcome o = run_case(*s, c);
  const char *k = o.kind == Outcome::OK ? "OK" : o.kind == Outcome::FAIL ? "FAIL" :
                  o.kind == Outcome::KNOWN ? "KNOWN" : "INCONCLUSIVE";
  printf("REPLAY %s sub=%s sig=%s msg=%s\n", k, c.sub.c_str(), o.sig.c_str(), o.msg.c_str());
  return o.kind == Outcome::FAIL ? 1 : o.kind == Outcome::INCONCLUSIVE ? 2 : 0;
}

}  // namespace vf
