#pragma once
#include "engine.hpp"
namespace vf {
void reset_ticks();
void set_verif_dir(const std::string &d);
const std::string &verif_dir();
void set_case_timeout(int s);
bool write_file(const std::string &path, const std::string &content);
bool read_file(const std::string &path, std::string &content);
int replay_main(const std::string &path);
void capture_begin();
std::string capture_end();

struct SubStats {
  long evaluations = 0;
  std::set<uint64_t> all_hashes;
  std::set<uint64_t> nt_hashes;
  std::map<std::string, long> tags;
  std::map<std::string, long> known_sigs;
  std::vector<std::string> samples;
  long excluded_known = 0;
  long inconclusive = 0;
  std::vector<std::pair<std::string, std::string>> failures;   // replay path, message
  void record(const Case &c, const Outcome &o);
  std::string json(const std::string &name) const;
};
}  // namespace vf
