// Replay-only main (no rapidcheck): used by the ThreadSanitizer binaries, which re-run cases emitted by the
// rapidcheck binary.   harness --replay file | harness --replay-dir dir --stats out.json
#include "engine_core.hpp"
#include <dirent.h>
#include <algorithm>
#include <chrono>
#include <map>
using namespace vf;
static std::string arg_of(int argc, char **argv, const char *name, const char *def) { for (int i = 1; i + 1 < argc; i++) if (!strcmp(argv[i], name)) return argv[i + 1]; return def; }
int main(int argc, char **argv) {
  setvbuf(stdout, nullptr, _IOLBF, 0);
  Property &prop = property();
  set_verif_dir(arg_of(argc, argv, "--verif-dir", "/verif"));
  std::string one = arg_of(argc, argv, "--replay", "");
  if (!one.empty()) return replay_main(one);
  std::string dir = arg_of(argc, argv, "--replay-dir", ""), stats = arg_of(argc, argv, "--stats", "");
  std::vector<std::string> files;
  if (DIR *d = opendir(dir.c_str())) { while (dirent *e = readdir(d)) { std::string n = e->d_name; if (n.size() > 5 && n.substr(n.size() - 5) == ".case") files.push_back(dir + "/" + n); } closedir(d); }
  std::sort(files.begin(), files.end());
  // --shard i/k: this process takes every k-th file; --budget S: stop opening cases after S seconds (truncates, never decides)
  int shard_i = 0, shard_k = 1; { std::string sh = arg_of(argc, argv, "--shard", "0/1"); sscanf(sh.c_str(), "%d/%d", &shard_i, &shard_k); if (shard_k < 1) shard_k = 1; }
  double budget = atof(arg_of(argc, argv, "--budget", "0").c_str());
  auto t0 = std::chrono::steady_clock::now();
  std::map<std::string, SubStats> st; bool any = false;
  size_t idx = 0;
  for (auto &f : files) {
    if ((int)(idx++ % (size_t)shard_k) != shard_i) continue;
    if (budget > 0 && std::chrono::duration<double>(std::chrono::steady_clock::now() - t0).count() > budget) break;
    std::string text; Case c; if (!read_file(f, text) || !parse_case(text, c)) continue;
    const Sub *s = find_sub(c.sub); if (!s) continue;
    c.nontrivial = true;
    Outcome o = run_case(*s, c);
    st[c.sub].record(c, o);
    if (o.kind == Outcome::FAIL) { any = true; st[c.sub].failures.push_back({f, o.msg}); printf("FAIL %s/%s replay=%s msg=%s\n", prop.id, c.sub.c_str(), f.c_str(), o.msg.c_str()); }
  }
  std::string out = "{\"property\":\"" + std::string(prop.id) + "\",\"subs\":[";
  bool first = true; for (auto &kv : st) { if (!first) out += ","; first = false; out += kv.second.json(kv.first + "(tsan)"); }
  out += "]}\n";
  if (!stats.empty()) write_file(stats, out);
  return any ? 1 : 0;
}
