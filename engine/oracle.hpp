// Reference linear algebra and statistics in long double.  No LAPACK, no libscientific code.
#pragma once
#include <vector>
#include <cmath>
#include <cstdint>
#include <cstddef>
#include <algorithm>
#include <numeric>
#include <limits>
#include <string>

namespace orc {
typedef long double ld;
static const ld EPS = 2.220446049250313e-16L;   // double unit round-off 2^-52
static const double MISSING_CODE = 99999999.0;

struct M {
  int r = 0, c = 0;
  std::vector<ld> a;
  M() {}
  M(int r_, int c_, ld fill = 0) : r(r_), c(c_), a((size_t)r_ * c_, fill) {}
  ld &operator()(int i, int j) { return a[(size_t)i * c + j]; }
  ld operator()(int i, int j) const { return a[(size_t)i * c + j]; }
};
typedef std::vector<ld> V;

inline M eye(int n) { M m(n, n); for (int i = 0; i < n; i++) m(i, i) = 1; return m; }
inline M transpose(const M &A) { M t(A.c, A.r); for (int i = 0; i < A.r; i++) for (int j = 0; j < A.c; j++) t(j, i) = A(i, j); return t; }
inline M mul(const M &A, const M &B) {
  M C(A.r, B.c);
  for (int i = 0; i < A.r; i++) for (int k = 0; k < A.c; k++) { ld x = A(i, k); if (x == 0) continue; for (int j = 0; j < B.c; j++) C(i, j) += x * B(k, j); }
  return C;
}
// product together with the sum of absolute terms (for the T1 forward bound)
inline void mul_abs(const M &A, const M &B, M &C, M &Cabs) {
  C = M(A.r, B.c); Cabs = M(A.r, B.c);
  for (int i = 0; i < A.r; i++) for (int k = 0; k < A.c; k++) for (int j = 0; j < B.c; j++) {
    ld t = A(i, k) * B(k, j); C(i, j) += t; Cabs(i, j) += fabsl(t);
  }
}
inline M sub(const M &A, const M &B) { M C = A; for (size_t i = 0; i < C.a.size(); i++) C.a[i] -= B.a[i]; return C; }
inline M add(const M &A, const M &B) { M C = A; for (size_t i = 0; i < C.a.size(); i++) C.a[i] += B.a[i]; return C; }
inline ld fro(const M &A) { ld s = 0; for (ld x : A.a) s += x * x; return sqrtl(s); }
inline ld maxabs(const M &A) { ld s = 0; for (ld x : A.a) s = std::max(s, fabsl(x)); return s; }
inline ld dot(const V &a, const V &b) { ld s = 0; for (size_t i = 0; i < a.size(); i++) s += a[i] * b[i]; return s; }
inline ld norm2(const V &a) { return sqrtl(dot(a, a)); }
inline V col(const M &A, int j) { V v(A.r); for (int i = 0; i < A.r; i++) v[i] = A(i, j); return v; }
inline V row(const M &A, int i) { V v(A.c); for (int j = 0; j < A.c; j++) v[j] = A(i, j); return v; }
inline V matvec(const M &A, const V &x) { V y(A.r, 0); for (int i = 0; i < A.r; i++) for (int j = 0; j < A.c; j++) y[i] += A(i, j) * x[j]; return y; }
inline V vecmat(const V &x, const M &A) { V y(A.c, 0); for (int i = 0; i < A.r; i++) for (int j = 0; j < A.c; j++) y[j] += A(i, j) * x[i]; return y; }
inline bool all_finite(const M &A) { for (ld x : A.a) if (!std::isfinite((double)x)) return false; return true; }

// Orthonormal columns from an integer seed matrix (modified Gram-Schmidt, twice).  Returns n x k (k <= n).
// Columns that turn out dependent are replaced by unit vectors orthogonalised the same way.
inline M orthonormal(int n, int k, const std::vector<int64_t> &seed) {
  M Q(n, k);
  size_t si = 0;
  for (int j = 0; j < k; j++) {
    V v(n);
    for (int i = 0; i < n; i++) v[i] = (ld)(seed.empty() ? (i == j) : seed[si++ % seed.size()]) + (i == j ? 0.5L : 0.0L);
    for (int attempt = 0; attempt <= n; attempt++) {
      for (int pass = 0; pass < 2; pass++)
        for (int q = 0; q < j; q++) { ld d = 0; for (int i = 0; i < n; i++) d += Q(i, q) * v[i]; for (int i = 0; i < n; i++) v[i] -= d * Q(i, q); }
      ld nv = norm2(v);
      if (nv > 1e-6L) { for (int i = 0; i < n; i++) Q(i, j) = v[i] / nv; break; }
      for (int i = 0; i < n; i++) v[i] = (i == (j + attempt) % n) ? 1 : 0;
    }
  }
  return Q;
}

// Cyclic Jacobi eigen-solver for symmetric matrices.  Eigenvalues descending, eigenvectors in columns.
inline void jacobi_eig(const M &S, V &eval, M &evec) {
  int n = S.r;
  M A = S; evec = eye(n);
  for (int sweep = 0; sweep < 100; sweep++) {
    ld off = 0, diag = 0;
    for (int i = 0; i < n; i++) for (int j = 0; j < n; j++) { if (i != j) off += A(i, j) * A(i, j); else diag += A(i, i) * A(i, i); }
    if (off <= 1e-38L * (diag + off) || off == 0) break;
    for (int p = 0; p < n - 1; p++) for (int q = p + 1; q < n; q++) {
      if (A(p, q) == 0) continue;
      ld theta = (A(q, q) - A(p, p)) / (2 * A(p, q));
      ld t = (theta >= 0 ? 1 : -1) / (fabsl(theta) + sqrtl(theta * theta + 1));
      ld c = 1 / sqrtl(t * t + 1), s = t * c;
      for (int k = 0; k < n; k++) { ld akp = A(k, p), akq = A(k, q); A(k, p) = c * akp - s * akq; A(k, q) = s * akp + c * akq; }
      for (int k = 0; k < n; k++) { ld apk = A(p, k), aqk = A(q, k); A(p, k) = c * apk - s * aqk; A(q, k) = s * apk + c * aqk; }
      for (int k = 0; k < n; k++) { ld vkp = evec(k, p), vkq = evec(k, q); evec(k, p) = c * vkp - s * vkq; evec(k, q) = s * vkp + c * vkq; }
    }
  }
  std::vector<int> idx(n); std::iota(idx.begin(), idx.end(), 0);
  std::sort(idx.begin(), idx.end(), [&](int a, int b) { return A(a, a) > A(b, b); });
  eval.resize(n); M E(n, n);
  for (int j = 0; j < n; j++) { eval[j] = A(idx[j], idx[j]); for (int i = 0; i < n; i++) E(i, j) = evec(i, idx[j]); }
  evec = E;
}

// Singular values (descending) via one-sided Jacobi on the thinner orientation.
inline V singular_values(const M &A0) {
  M A = (A0.r >= A0.c) ? A0 : transpose(A0);
  int m = A.r, n = A.c;
  for (int sweep = 0; sweep < 100; sweep++) {
    bool rotated = false;
    for (int p = 0; p < n - 1; p++) for (int q = p + 1; q < n; q++) {
      ld al = 0, be = 0, ga = 0;
      for (int i = 0; i < m; i++) { al += A(i, p) * A(i, p); be += A(i, q) * A(i, q); ga += A(i, p) * A(i, q); }
      if (ga == 0 || fabsl(ga) <= 1e-19L * sqrtl(al * be)) continue;
      rotated = true;
      ld zeta = (be - al) / (2 * ga);
      ld t = (zeta >= 0 ? 1 : -1) / (fabsl(zeta) + sqrtl(1 + zeta * zeta));
      ld c = 1 / sqrtl(1 + t * t), s = c * t;
      for (int i = 0; i < m; i++) { ld x = A(i, p), y = A(i, q); A(i, p) = c * x - s * y; A(i, q) = s * x + c * y; }
    }
    if (!rotated) break;
  }
  V sv(n);
  for (int j = 0; j < n; j++) { ld s = 0; for (int i = 0; i < m; i++) s += A(i, j) * A(i, j); sv[j] = sqrtl(s); }
  std::sort(sv.begin(), sv.end(), [](ld a, ld b) { return a > b; });
  return sv;
}
inline int numerical_rank(const V &sv, ld rel = 1e-9L) {
  if (sv.empty() || sv[0] == 0) return 0;
  int r = 0; for (ld s : sv) if (s > rel * sv[0]) r++; return r;
}

// Gaussian elimination with complete pivoting: solves A X = B.  Returns false if singular (pivot == 0).
inline bool solve_cp(M A, M B, M &X, ld *det = nullptr) {
  int n = A.r, nb = B.c;
  std::vector<int> colperm(n); std::iota(colperm.begin(), colperm.end(), 0);
  ld d = 1;
  for (int k = 0; k < n; k++) {
    int pi = k, pj = k; ld best = -1;
    for (int i = k; i < n; i++) for (int j = k; j < n; j++) if (fabsl(A(i, j)) > best) { best = fabsl(A(i, j)); pi = i; pj = j; }
    if (best <= 0) { if (det) *det = 0; return false; }
    if (pi != k) { for (int j = 0; j < n; j++) std::swap(A(k, j), A(pi, j)); for (int j = 0; j < nb; j++) std::swap(B(k, j), B(pi, j)); d = -d; }
    if (pj != k) { for (int i = 0; i < n; i++) std::swap(A(i, k), A(i, pj)); std::swap(colperm[k], colperm[pj]); d = -d; }
    d *= A(k, k);
    for (int i = k + 1; i < n; i++) {
      ld f = A(i, k) / A(k, k);
      if (f == 0) continue;
      for (int j = k; j < n; j++) A(i, j) -= f * A(k, j);
      for (int j = 0; j < nb; j++) B(i, j) -= f * B(k, j);
    }
  }
  M Y(n, nb);
  for (int k = n - 1; k >= 0; k--) for (int j = 0; j < nb; j++) {
    ld s = B(k, j); for (int q = k + 1; q < n; q++) s -= A(k, q) * Y(q, j); Y(k, j) = s / A(k, k);
  }
  X = M(n, nb);
  for (int k = 0; k < n; k++) for (int j = 0; j < nb; j++) X(colperm[k], j) = Y(k, j);
  if (det) *det = d;
  return true;
}
inline ld lu_det(const M &A) { ld d = 0; M X; M B(A.r, 0); solve_cp(A, B, X, &d); return d; }
inline bool inverse(const M &A, M &Ai) { return solve_cp(A, eye(A.r), Ai); }

// Least squares min ||A X - B|| by Householder QR (A m x n, m >= n, full column rank assumed).
inline bool lstsq(const M &A0, const M &B0, M &X) {
  M A = A0, B = B0; int m = A.r, n = A.c, nb = B.c;
  for (int k = 0; k < n; k++) {
    ld nrm = 0; for (int i = k; i < m; i++) nrm += A(i, k) * A(i, k); nrm = sqrtl(nrm);
    if (nrm == 0) return false;
    ld alpha = A(k, k) > 0 ? -nrm : nrm;
    V v(m, 0); for (int i = k; i < m; i++) v[i] = A(i, k); v[k] -= alpha;
    ld vv = 0; for (int i = k; i < m; i++) vv += v[i] * v[i];
    if (vv == 0) continue;
    for (int j = k; j < n; j++) { ld s = 0; for (int i = k; i < m; i++) s += v[i] * A(i, j); s = 2 * s / vv; for (int i = k; i < m; i++) A(i, j) -= s * v[i]; }
    for (int j = 0; j < nb; j++) { ld s = 0; for (int i = k; i < m; i++) s += v[i] * B(i, j); s = 2 * s / vv; for (int i = k; i < m; i++) B(i, j) -= s * v[i]; }
  }
  X = M(n, nb);
  for (int k = n - 1; k >= 0; k--) for (int j = 0; j < nb; j++) {
    ld s = B(k, j); for (int q = k + 1; q < n; q++) s -= A(k, q) * X(q, j);
    if (A(k, k) == 0) return false;
    X(k, j) = s / A(k, k);
  }
  return true;
}

// ---------------------------------------------------------------- preprocessing reference
// Options as documented in pca.h / preprocessing.h: -1 none, 0 centring, 1 SDEV autoscaling, 2 RMS,
// 3 Pareto, 4 range, 5 level.  MISSING-coded cells are skipped in the statistics and left untouched.
struct Prep { V mean, scale; M X; };
inline bool is_missing(ld x) { return (double)x == MISSING_CODE; }
inline Prep ref_preprocess(const M &X, int option) {
  Prep P; P.X = X;
  if (option < 0) return P;
  int n = X.r, p = X.c;
  P.mean.assign(p, 0); P.scale.assign(p, 1);
  for (int j = 0; j < p; j++) {
    ld s = 0; int cnt = 0;
    for (int i = 0; i < n; i++) if (!is_missing(X(i, j))) { s += X(i, j); cnt++; }
    ld mu = cnt ? s / cnt : 0;
    P.mean[j] = mu;
    ld ss = 0, sq = 0, mn = 0, mx = 0; bool first = true;
    for (int i = 0; i < n; i++) if (!is_missing(X(i, j))) {
      ld d = X(i, j) - mu; ss += d * d; sq += X(i, j) * X(i, j);
      if (first) { mn = mx = X(i, j); first = false; } else { mn = std::min(mn, X(i, j)); mx = std::max(mx, X(i, j)); }
    }
    ld sd = cnt > 1 ? sqrtl(ss / (cnt - 1)) : 0;
    ld sc = 1;
    switch (option) {
      case 0: sc = 1; break;
      case 1: sc = sd; break;
      case 2: sc = cnt ? sqrtl(sq / cnt) : 0; break;
      case 3: sc = sqrtl(sd); break;
      case 4: sc = mx - mn; break;
      case 5: sc = mu; break;
    }
    P.scale[j] = sc;
    for (int i = 0; i < n; i++) {
      if (is_missing(X(i, j))) continue;          // value at a missing cell is unspecified: left as is
      P.X(i, j) = (sc == 0) ? 0 : (X(i, j) - mu) / sc;
    }
  }
  return P;
}

// ---------------------------------------------------------------- misc
inline ld tol_T1(size_t nterms, ld sumabs, ld factor = 64) { return factor * (ld)(nterms + 1) * EPS * sumabs + 1e-300L; }

}  // namespace orc
