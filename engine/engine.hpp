// Engine interface shared by every property harness.  Property translation units include only this
// header (plus oracle.hpp / lsci.hpp); rapidcheck is confined to engine_rc.cpp so that a property TU
// compiles in a few seconds.
#pragma once
#include <cstdint>
#include <cstdio>
#include <cstdlib>
#include <cstring>
#include <string>
#include <vector>
#include <map>
#include <set>
#include <functional>

namespace vf {

// A generated case is plain data.  Its text serialisation is the replay file.
struct Case {
  std::string sub;                 // sub-property name
  std::vector<int64_t> p;          // integer parameters (shapes, options, op codes, schedules ...)
  std::vector<double> v;           // real payload (matrix cells ...), written as C99 hex floats
  std::vector<std::string> tags;   // generator-side classification
  bool nontrivial = false;         // generator-side non-triviality verdict (rule stated per property)
};

std::string serialize(const Case &c);
bool parse_case(const std::string &text, Case &c);
uint64_t case_hash(const Case &c);

// Source of generated values.  Backed by rapidcheck (engine_rc.cpp); every random choice of a harness
// goes through it so shrinking and replay work.
struct Draw {
  virtual ~Draw() {}
  // uniform integer in [lo, hi] independent of the rapidcheck size; shrinks towards lo (or 0 if inside)
  virtual int64_t i(int64_t lo, int64_t hi) = 0;
  // integer in [lo, hi] whose upper reach grows with the rapidcheck size (dimensions, lengths)
  virtual int64_t sz(int64_t lo, int64_t hi) = 0;
  // n integers in [lo, hi], drawn as one container (shrinks element-wise)
  virtual std::vector<int64_t> ivec(size_t n, int64_t lo, int64_t hi) = 0;
  virtual int size() = 0;          // current rapidcheck size (0..max_size)
  // helpers
  bool coin(int percent) { return i(0, 99) < percent; }
  template <class T> T pick(std::initializer_list<T> l) {
    std::vector<T> v(l); return v[(size_t)i(0, (int64_t)v.size() - 1)];
  }
  // dyadic real k / 2^bits with |k| <= maxk
  double dyadic(int64_t maxk, int bits) { return (double)i(-maxk, maxk) / (double)(1LL << bits); }
  // real in [lo, hi] on a 2^20 grid
  double real(double lo, double hi) { return lo + (hi - lo) * (double)i(0, 1 << 20) / (double)(1 << 20); }
};

// ---- child-side reporting (the predicate runs in a forked child) -----------------------------
void tag(const std::string &t);            // classification observed at run time
void nontrivial();                         // mark the case non-trivial at run time
void pre_known(const std::string &sig);    // "if I die from here on, the input carries signature sig"
void clear_pre_known();
void expect_abort(bool on);          // a library abort() from here on is an accepted outcome (C14 accessors)
// Failure that the harness attributes to a signature computed from the INPUT (never from the
// library's output).  Counts as excluded only if sig is listed as `known:` in known_findings.txt.
[[noreturn]] void fail_known(const std::string &sig, const std::string &msg);
[[noreturn]] void fail(const std::string &msg);
std::string fmt(const char *f, ...) __attribute__((format(printf, 1, 2)));
#define VF_CHECK(cond, ...) do { if (!(cond)) ::vf::fail(::vf::fmt(__VA_ARGS__)); } while (0)

// tick ceiling (hook H3); the child _exit(98)s when the library loops exceed it
void set_tick_ceiling(long n);
long ticks(int site);

struct Sub {
  const char *name;
  void (*gen)(Draw &, Case &);
  void (*pred)(const Case &);              // runs in the child; calls fail()/fail_known() or returns
  int quick_n;                             // cases in the quick tier
  int thorough_n;                          // cases per process in the thorough tier
  int max_size;                            // rapidcheck max_size
  bool nofork = false;                     // run the predicate in-process (cheap pure predicates)
  int timeout_s = 0;                       // wall-clock alarm of one case (0 = engine default); hitting it is INCONCLUSIVE, never a violation
  double budget_share = 0;                 // thorough tier: fixed share of the process wall budget (0 = by case count among the others);
                                           // such a sub-property is stopped between cases (its later cases are generated but not run)
};

struct Property {
  const char *id;
  const char *rule;                        // generation + non-triviality rule (text, for evidence)
  std::vector<Sub> subs;
};

// Each harness defines this.
Property &property();

// engine entry (engine_rc.cpp or engine_norc.cpp provides main()).
struct Outcome {
  enum Kind { OK, FAIL, KNOWN, INCONCLUSIVE } kind = OK;
  std::string msg;
  std::string sig;
  std::vector<std::string> tags;
  bool nontrivial = false;
};
Outcome run_case(const Sub &s, const Case &c);
const Sub *find_sub(const std::string &name);
bool known_listed(const std::string &sig);

}  // namespace vf
