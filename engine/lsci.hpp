// Wrapper around the libscientific C headers for the C++ harnesses.
// The library typedef `ssignal` collides with glibc's ssignal() once <signal.h> is visible, and the
// headers have no extern "C" guards.
#pragma once
#include <signal.h>
#include <stdint.h>
#include <stddef.h>
#define ssignal libsci_ssignal
extern "C" {
#include "memwrapper.h"
#include "vector.h"
#include "list.h"
#include "matrix.h"
#include "tensor.h"
#include "numeric.h"
#include "algebra.h"
#include "statistic.h"
#include "metricspace.h"
#include "interpolate.h"
#include "preprocessing.h"
#include "optimization.h"
#include "pca.h"
#include "cpca.h"
#include "pls.h"
#include "epls.h"
#include "lda.h"
#include "mlr.h"
#include "clustering.h"
#include "modelvalidation.h"
#include "io.h"
#include "verifhooks.h"
}
