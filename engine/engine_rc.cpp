// rapidcheck driver: main() of every property harness.
//   harness --run --tier quick|thorough --seed N [--proc k] [--only sub] --stats out.json --replay-dir dir
//   harness --replay file
//   harness --emit dir --count N --seed N [--only sub]      (writes generated cases, used by the TSan batches)
#include "engine_core.hpp"
#include <rapidcheck.h>
#include <rapidcheck/detail/Configuration.h>
#include <chrono>
#include <sys/stat.h>

namespace vf {

// Ranges that contain 0 are enumerated 0, 1, -1, 2, -2, ... so that rapidcheck's shrink-towards-the-minimum
// moves values towards 0; other ranges shrink towards lo.
static inline int64_t unzig(int64_t k, int64_t lo, int64_t hi) {
  if (!(lo < 0 && hi > 0)) return lo + k;
  int64_t m = std::min(-lo, hi);
  if (k <= 2 * m) return (k % 2) ? (k + 1) / 2 : -(k / 2);
  int64_t rest = k - 2 * m;
  return (hi > -lo) ? m + rest : -(m + rest);
}
struct RcDraw : Draw {
  int cur_size = 0;
  int64_t i(int64_t lo, int64_t hi) override {
    if (hi <= lo) return lo;
    return unzig(*rc::gen::resize(100000, rc::gen::inRange<int64_t>(0, hi - lo + 1)), lo, hi);
  }
  int64_t sz(int64_t lo, int64_t hi) override {
    if (hi <= lo) return lo;
    // reach grows linearly with the size: at size s (of 100) the upper bound is lo + (hi-lo)*s/100
    int s = cur_size; if (s > 100) s = 100;
    int64_t top = lo + ((hi - lo) * (int64_t)s + 99) / 100;
    if (top < lo + 1 && hi > lo) top = lo + 1;
    if (top > hi) top = hi;
    return *rc::gen::resize(100000, rc::gen::inRange<int64_t>(lo, top + 1));
  }
  std::vector<int64_t> ivec(size_t n, int64_t lo, int64_t hi) override {
    if (n == 0) return {};
    if (hi <= lo) return std::vector<int64_t>(n, lo);
    auto v = *rc::gen::resize(100000, rc::gen::container<std::vector<int64_t>>(n, rc::gen::inRange<int64_t>(0, hi - lo + 1)));
    for (auto &x : v) x = unzig(x, lo, hi);
    return v;
  }
  int size() override { return cur_size; }
};

}  // namespace vf

using namespace vf;

static std::string failure_class(const std::string &msg) {
  std::string c;
  for (char ch : msg) { if (ch == ':' || (ch >= '0' && ch <= '9') || ch == '(' || ch == '[') break; c += ch; }
  if (c.size() > 60) c.resize(60);
  return c;
}

static std::string arg_of(int argc, char **argv, const char *name, const char *def) {
  for (int i = 1; i + 1 < argc; i++) if (!strcmp(argv[i], name)) return argv[i + 1];
  return def;
}
static bool has_flag(int argc, char **argv, const char *name) {
  for (int i = 1; i < argc; i++) if (!strcmp(argv[i], name)) return true;
  return false;
}

int main(int argc, char **argv) {
  setvbuf(stdout, nullptr, _IOLBF, 0);
  Property &prop = property();
  set_verif_dir(arg_of(argc, argv, "--verif-dir", "/verif"));
  if (has_flag(argc, argv, "--rule")) { printf("%s\n", prop.rule); return 0; }
  if (has_flag(argc, argv, "--replay")) return replay_main(arg_of(argc, argv, "--replay", ""));

  std::string tier = arg_of(argc, argv, "--tier", "quick");
  uint64_t seed = strtoull(arg_of(argc, argv, "--seed", "20261001").c_str(), nullptr, 10);
  int proc = atoi(arg_of(argc, argv, "--proc", "0").c_str());
  std::string only = arg_of(argc, argv, "--only", "");
  std::string stats_path = arg_of(argc, argv, "--stats", "");
  std::string replay_dir = arg_of(argc, argv, "--replay-dir", "/verif/evidence/replay");
  std::string emit_dir = arg_of(argc, argv, "--emit", "");
  int emit_count = atoi(arg_of(argc, argv, "--count", "50").c_str());
  double scale = atof(arg_of(argc, argv, "--scale", "1").c_str());
  int shrink_budget = atoi(arg_of(argc, argv, "--shrink-budget", "1500").c_str());
  double shrink_seconds = atof(arg_of(argc, argv, "--shrink-seconds", "60").c_str());
  // wall budget of this process (0 = none) and number of rounds each sub-property's count is split into: a round is a complete
  // rapidcheck run over the whole size range; rounds after the first are skipped once the sub-property's share of the budget is
  // used up.  The budget only truncates the exploration (reported as rounds_done / rounds), it never decides a verdict.
  double budget = atof(arg_of(argc, argv, "--budget", "0").c_str());
  int rounds = std::max(1, atoi(arg_of(argc, argv, "--rounds", "1").c_str()));
  long total_n = 0; double fixed_share = 0;
  for (auto &sub : prop.subs) {
    if (!only.empty() && only != sub.name) continue;
    if (sub.budget_share > 0) { fixed_share += sub.budget_share; continue; }
    total_n += (long)((tier == "thorough" ? sub.thorough_n : sub.quick_n) * scale);
  }
  if (fixed_share > 0.9) fixed_share = 0.9;
  mkdir(replay_dir.c_str(), 0755);
  if (!emit_dir.empty()) mkdir(emit_dir.c_str(), 0755);

  std::string out = "{\"property\":\"" + std::string(prop.id) + "\",\"tier\":\"" + tier + "\",\"seed\":" +
                    std::to_string(seed) + ",\"proc\":" + std::to_string(proc) + ",\"subs\":[";
  bool any_fail = false;
  bool firstsub = true;
  int truncated_subs = 0;
  auto t0 = std::chrono::steady_clock::now();
  for (auto &sub : prop.subs) {
    if (!only.empty() && only != sub.name) continue;
    SubStats st;
    int n = tier == "thorough" ? sub.thorough_n : sub.quick_n;
    n = (int)(n * scale);
    if (!emit_dir.empty()) n = emit_count;
    if (n <= 0) continue;
    int nrounds = (!emit_dir.empty() || sub.budget_share > 0 || n < 4 * rounds) ? 1 : rounds;
    long budget_skipped = 0;     // budget_share sub-properties: generated cases not evaluated because the share was used up
    int per_round = (n + nrounds - 1) / nrounds, rounds_done = 0;
    double sub_budget = budget <= 0 ? 0 : sub.budget_share > 0 ? budget * sub.budget_share
                        : total_n > 0 ? budget * (1 - fixed_share) * (double)n / (double)total_n : 0;
    auto sub_t0 = std::chrono::steady_clock::now();
    bool ok = true;
    bool failing = false;        // a failing case has been seen: we are shrinking
    for (int round = 0; round < nrounds && !failing && ok; round++) {
    if (round > 0 && sub_budget > 0 && std::chrono::duration<double>(std::chrono::steady_clock::now() - sub_t0).count() > sub_budget) break;
    rounds_done++;
    rc::detail::TestParams params;
    // one independent stream per (seed, process, sub-property, round)
    uint64_t h = seed * 1000003ULL + (uint64_t)proc * 7919ULL;
    for (const char *q = sub.name; *q; q++) h = h * 131 + (unsigned char)*q;
    params.seed = h + (uint64_t)round * 0x9E3779B97F4A7C15ULL;
    params.maxSuccess = per_round;
    params.maxSize = sub.max_size;
    params.maxDiscardRatio = 10;
    rc::detail::TestMetadata meta;
    meta.id = std::string(prop.id) + "/" + sub.name;
    meta.description = meta.id;

    int shrink_evals = 0;
    auto fail_t0 = std::chrono::steady_clock::now();
    Case lastfail; std::string lastmsg, failclass;
    std::set<std::string> other_classes;
    int emitted = 0;
    auto body = [&]() {
      RcDraw d;
      d.cur_size = *rc::gen::withSize([](int s) { return rc::gen::just(s); });
      Case c; c.sub = sub.name;
      sub.gen(d, c);
      if (!emit_dir.empty()) {
        write_file(emit_dir + "/" + sub.name + "-" + std::to_string(emitted++) + ".case", serialize(c));
        return;
      }
      if (failing) {
        // shrink budget (count and wall time) used up: further candidates are treated as passing.  This bounds only
        // how small the reported case gets, never the verdict.
        double since = std::chrono::duration<double>(std::chrono::steady_clock::now() - fail_t0).count();
        if (++shrink_evals > shrink_budget || since > shrink_seconds) return;
      }
      if (!failing && sub.budget_share > 0 && sub_budget > 0 && st.evaluations >= 1 &&
          std::chrono::duration<double>(std::chrono::steady_clock::now() - sub_t0).count() > sub_budget) { budget_skipped++; return; }
      Outcome o = run_case(sub, c);
      if (!failing) st.record(c, o);
      if (o.kind == Outcome::INCONCLUSIVE && !failing) {
        std::string ip = replay_dir + "/" + prop.id + "-" + sub.name + "-inconclusive-s" + std::to_string(seed) + "p" + std::to_string(proc) + ".case";
        write_file(ip, serialize(c) + "# " + o.msg + "\n");
        fprintf(stderr, "INCONCLUSIVE %s/%s: %s (case saved to %s)\n", prop.id, sub.name, o.msg.c_str(), ip.c_str());
      }
      if (o.kind == Outcome::FAIL) {
        // shrinking keeps to the failure class first seen (text before the first ':' / digit), so that a
        // shrunk case reproduces the same defect instead of wandering into another one
        std::string cls = failure_class(o.msg);
        if (!failing) { failing = true; failclass = cls; fail_t0 = std::chrono::steady_clock::now(); }
        else if (cls != failclass) { other_classes.insert(cls); return; }
        lastfail = c; lastmsg = o.msg;
        RC_FAIL(o.msg);
      }
    };
    auto result = rc::detail::checkTestable(body, meta, params);
    ok = result.template is<rc::detail::SuccessResult>();
    if (!ok && !failing) {
      // gave up / generation error: a harness defect, never a library violation
      std::ostringstream os; rc::detail::printResultMessage(result, os);
      fprintf(stderr, "HARNESS-ERROR %s/%s: %s\n", prop.id, sub.name, os.str().c_str());
      st.failures.push_back({"", "HARNESS-ERROR " + os.str()});
      any_fail = true;
    }
    if (failing) {
      any_fail = true;
      std::string path = replay_dir + "/" + prop.id + "-" + sub.name + "-s" + std::to_string(seed) + "p" +
                         std::to_string(proc) + ".case";
      write_file(path, serialize(lastfail) + "# " + lastmsg + "\n");
      st.failures.push_back({path, lastmsg});
      printf("FAIL %s/%s replay=%s msg=%s\n", prop.id, sub.name, path.c_str(), lastmsg.c_str());
      for (auto &oc : other_classes) fprintf(stderr, "[%s/%s] another failure class was met while shrinking: %s\n", prop.id, sub.name, oc.c_str());
    }
    }   // rounds
    if (!firstsub) out += ",";
    firstsub = false;
    out += st.json(sub.name);
    fprintf(stderr, "[%s/%s] evals=%ld nontrivial=%zu known=%ld rounds=%d/%d budget_skipped=%ld %s\n", prop.id, sub.name, st.evaluations,
            st.nt_hashes.size(), st.excluded_known, rounds_done, nrounds, budget_skipped, ok ? "ok" : "FAILED");
    if ((rounds_done < nrounds || budget_skipped > 0) && ok) truncated_subs++;
  }
  double wall = std::chrono::duration<double>(std::chrono::steady_clock::now() - t0).count();
  out += "],\"truncated_subs\":" + std::to_string(truncated_subs) + ",\"wall_s\":" + std::to_string(wall) + "}\n";
  if (!stats_path.empty()) write_file(stats_path, out);
  return any_fail ? 1 : 0;
}
